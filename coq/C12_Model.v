(* C12 -- model of the bookkeeping of photutils.psf.PSFPhotometry.__call__
   (photutils/psf/photometry.py) and photutils.psf.SourceGrouper (groupers.py).

   Real-valued quantities (positions, fluxes, local backgrounds, bounds, fitted
   parameters, residuals, pixel values) are integers scaled by a common power of two
   [sc]; a non-finite pixel is [None].  The model mirrors the code:
     _make_mask (REPAIRED, see fixes/C12-1; the text at HEAD is [make_mask_head]),
     SourceGrouper._group_sources (fclusterdata := Conn.components on the graph
       dist <= min_separation, then the defaultdict first-appearance renumbering),
     _prepare_init_params (ids, group ids; REPAIRED, see fixes/C12-3: a group_id column given
       in init_params is kept -- the text at HEAD, [group_ids_head], overwrites it with the ids),
     _get_invalid_positions/_check_init_positions,
     _fit_sources (Table.group_by = stable sort on group_id, groups = runs,
       ungroup_idx = argsort(ids), one fitter call per group in group order),
     _make_psf_model (initial values, xy bounds), _define_fit_data (overlap_slices
       mode='trim', unmasked pixels in raster order, npixfit, centre index),
     the weights check, _parse_fit_results (split of the parameter errors by
       nfitparam, [fit_info]*n, _order_by_id), join(init_params, fit_params),
     _ungroup(npixfit / nmodels), _calc_fit_metrics (np.split of the residual vector,
       qfit, cfit), _get_fit_error_indices and _define_flags (REPAIRED bit 16, see
       fixes/C12-2; HEAD text is [flag16_head]).
   The fitter is NOT modelled: it is the function [fitter : nat -> callin -> fitout]
   (call number, what it was given) -> (what it returned). *)
From Coq Require Import List Arith ZArith Bool Lia.
From PV Require Import lib.Cases lib.Conn.
Import ListNotations.
Open Scope Z_scope.

Definition cdiv (a b : Z) : Z := - ((- a) / b).          (* ceil(a / b), b > 0 *)

(* ---------------- _make_mask ---------------- *)
Definition bor (a b : list bool) := map (fun p => fst p || snd p) (combine a b).
(* fin = np.isfinite(image).  Result: (mask handed on, warning emitted) *)
Definition make_mask (fin : list bool) (mask : option (list bool)) : option (list bool) * bool :=
  let nf := map negb fin in
  match mask with
  | Some m => let fm := bor nf m in
              (Some fm, existsb (fun p => fst p && negb (snd p)) (combine fm m))
  | None => if existsb (fun b => b) nf then (Some nf, true) else (None, false)
  end.
(* the function as written at HEAD: in the [mask is not None] branch the OR-ed array
   is only used for the warning and the caller's mask is returned *)
Definition make_mask_head (fin : list bool) (mask : option (list bool)) : option (list bool) * bool :=
  let nf := map negb fin in
  match mask with
  | Some m => let fm := bor nf m in
              (Some m, existsb (fun p => fst p && negb (snd p)) (combine fm m))
  | None => if existsb (fun b => b) nf then (Some nf, true) else (None, false)
  end.

(* ---------------- SourceGrouper ---------------- *)
Fixpoint index_of (x : nat) (l : list nat) : nat :=
  match l with [] => 0%nat | a :: r => if (a =? x)%nat then 0%nat else S (index_of x r) end.
(* mapping = defaultdict(lambda: len(mapping) + 1); [mapping[g] for g in group_id] *)
Fixpoint renumber (seen : list nat) (labs : list nat) : list nat :=
  match labs with
  | [] => []
  | l :: r => if existsb (Nat.eqb l) seen then S (index_of l seen) :: renumber seen r
              else S (length seen) :: renumber (seen ++ [l]) r
  end.

Section Grouper.
Variable pos : list (Z * Z).       (* scaled (x, y) *)
Variable t : Z.                    (* scaled min_separation *)
Definition gn := length pos.
Definition close (i j : nat) : bool :=
  let '(xi, yi) := nth i pos (0, 0) in let '(xj, yj) := nth j pos (0, 0) in
  (xi - xj) * (xi - xj) + (yi - yj) * (yi - yj) <=? t * t.
Definition gnbrs (i : nat) : list nat := filter (close i) (seq 0 gn).
(* fclusterdata(criterion='distance') := components of the graph d <= t *)
Definition fcluster : option (list nat) := components gn (fun _ => true) gnbrs.
Definition group_sources : option (list nat) :=
  if (gn =? 1)%nat then Some [1%nat]
  else match fcluster with Some lab => Some (renumber [] lab) | None => None end.
End Grouper.

(* ---------------- sorting / grouping / un-grouping ---------------- *)
Fixpoint insert_by {A} (key : A -> Z) (a : A) (l : list A) : list A :=
  match l with
  | [] => [a]
  | b :: r => if key a <=? key b then a :: b :: r else b :: insert_by key a r
  end.
(* stable sort by key (Table.group_by uses argsort(kind='stable')) *)
Definition sort_by {A} (key : A -> Z) (l : list A) : list A := fold_right (insert_by key) [] l.
(* maximal runs of equal key = table.groups *)
Fixpoint runs {A} (key : A -> Z) (l : list A) : list (list A) :=
  match l with
  | [] => []
  | a :: r => match runs key r with
              | (b :: g) :: gs => if key a =? key b then (a :: b :: g) :: gs else [a] :: (b :: g) :: gs
              | _ => [[a]]
              end
  end.
Definition argsort (keys : list Z) : list nat :=
  map snd (sort_by fst (combine keys (seq 0 (length keys)))).
(* _order_by_id: [iterable[i] for i in ungroup_indices] *)
Definition order_by {A} (idx : list nat) (l : list A) (d : A) : list A := map (fun i => nth i l d) idx.

(* ---------------- sources, fitter interface ---------------- *)
Record src := mkSrc { s_id : Z; s_gid : Z; s_x : Z; s_y : Z; s_flux : Z; s_bkg : Z }.
Definition src0 := mkSrc 0 0 0 0 0 0.

Record callin := mkCall {
  ci_ids : list Z;                       (* model.name of each submodel *)
  ci_init : list (Z * Z * Z);            (* x, y, flux initial values *)
  ci_bx : list (option (Z * Z));         (* bounds of x *)
  ci_by : list (option (Z * Z));
  ci_yi : list Z; ci_xi : list Z;        (* flattened pixel indices *)
  ci_cut : list (option Z) }.            (* data[yi, xi] - local_bkg *)

Record fitout := mkFit {
  fo_par : list (Z * Z * Z);             (* fitted x, y, flux of each submodel *)
  fo_ierr : option Z; fo_status : option Z;
  fo_cov : option (list Z);              (* sqrt(diag(param_cov)); None = not returned *)
  fo_fvec : option (list Z); fo_fun : option (list Z);
  fo_ext : list (list Z) }.              (* fitted values of the further free parameters, per submodel *)
Definition fit0 := mkFit [] None None None None None [].

Inductive err := ENoOverlap | EMasked | EWeights | EInternal.

Section Phot.
Variables (ny nx fy fx sc : Z).
Variable msk : option (list bool).       (* mask returned by _make_mask *)
Variable data : list (option Z).
Variable errbad : option (list bool).    (* error= given; true where 1/error is not finite *)
Variable xyb : option (option Z * option Z).   (* xy_bounds *)
Variable fixed : bool * bool * bool.     (* flux, x, y fixed in the PSF model *)
Variable nextra : Z.                     (* number of further free parameters *)
Variable fitter : nat -> callin -> fitout.

Definition pidx (y x : Z) : nat := Z.to_nat (y * nx + x).
Definition masked (p : Z * Z) : bool :=
  match msk with None => false | Some m => nth (pidx (fst p) (snd p)) m false end.

(* ---- _get_invalid_positions ---- *)
Definition lo (c f : Z) := cdiv (2 * c - f * sc) (2 * sc).    (* ceil(pos - f/2) *)
Definition hi (c f : Z) := cdiv (2 * c + f * sc) (2 * sc).    (* ceil(pos + f/2) *)
Definition invalid (s : src) : bool :=
  ((hi (s_y s) fy <=? 0) || (hi (s_x s) fx <=? 0)) || ((ny <=? lo (s_y s) fy) || (nx <=? lo (s_x s) fx)).

(* ---- overlap_slices(mode='trim') on one axis: None = NoOverlapError ---- *)
Definition oslice (c f n : Z) : option (Z * Z) :=
  let imin := lo c f in let imax := imin + f in
  if imax <=? 0 then None else if n <=? imin then None else
  let a := Z.max 0 imin in let b := Z.min n imax in
  if b - a =? 0 then None else Some (a, b).
Definition zrange (a b : Z) : list Z := map (fun k => a + Z.of_nat k) (seq 0 (Z.to_nat (b - a))).
Definition mgrid (ys xs : Z * Z) : list (Z * Z) :=
  flat_map (fun y => map (fun x => (y, x)) (zrange (fst xs) (snd xs))) (zrange (fst ys) (snd ys)).

Fixpoint find_index {A} (f : A -> bool) (l : list A) : option nat :=
  match l with
  | [] => None
  | a :: r => if f a then Some 0%nat else option_map S (find_index f r)
  end.

(* per source: unmasked pixels (raster order), centre index *)
Definition fit_data1 (s : src) : err + (list (Z * Z) * option nat) :=
  match oslice (s_y s) fy ny, oslice (s_x s) fx nx with
  | Some ys, Some xs =>
      let px := filter (fun p => negb (masked p)) (mgrid ys xs) in
      match px with
      | [] => inl EMasked
      | _ => let xc := cdiv (2 * s_x s - sc) (2 * sc) in    (* ceil(x - 0.5) *)
             let yc := cdiv (2 * s_y s - sc) (2 * sc) in
             inr (px, find_index (fun p => (snd p =? xc) && (fst p =? yc)) px)
      end
  | _, _ => inl ENoOverlap
  end.
Fixpoint fit_data (g : list src) : err + list (list (Z * Z) * option nat) :=
  match g with
  | [] => inr []
  | s :: r => match fit_data1 s with
              | inl e => inl e
              | inr d => match fit_data r with inl e => inl e | inr ds => inr (d :: ds) end
              end
  end.

Definition bnd (b : option Z) (c : Z) : option (Z * Z) :=
  match b with Some b => Some (c - b, c + b) | None => None end.
Definition xbound (s : src) := match xyb with Some (bx, _) => bnd bx (s_x s) | None => None end.
Definition ybound (s : src) := match xyb with Some (_, by_) => bnd by_ (s_y s) | None => None end.

Definition cutval (s : src) (p : Z * Z) : option Z :=
  match nth (pidx (fst p) (snd p)) data None with Some v => Some (v - s_bkg s) | None => None end.
Definition wbad (p : Z * Z) : bool :=
  match errbad with None => false | Some e => nth (pidx (fst p) (snd p)) e false end.

Definition make_call (g : list src) (fd : list (list (Z * Z) * option nat)) : callin :=
  let pxs := flat_map fst fd in
  mkCall (map s_id g) (map (fun s => (s_x s, s_y s, s_flux s)) g) (map xbound g) (map ybound g)
         (map fst pxs) (map snd pxs)
         (flat_map (fun sd => map (cutval (fst sd)) (fst (snd sd))) (combine g fd)).

(* result of one group *)
Record gres := mkG { gr_srcs : list src; gr_fd : list (list (Z * Z) * option nat); gr_out : fitout }.

(* for sources_ in sources: ... (one fitter call per group, in group order) *)
Fixpoint fit_groups (k : nat) (gs : list (list src)) : list callin * option err * list gres :=
  match gs with
  | [] => ([], None, [])
  | g :: rest =>
      match fit_data g with
      | inl e => ([], Some e, [])
      | inr fd =>
          if existsb wbad (flat_map fst fd) then ([], Some EWeights, [])
          else let ci := make_call g fd in
               let fo := fitter k ci in
               let '(calls, e, rs) := fit_groups (S k) rest in
               (ci :: calls, e, mkG g fd fo :: rs)
      end
  end.

(* ---- _parse_fit_results ---- *)
Definition bcount (b : bool) : Z := if b then 0 else 1.
Definition nfree : Z := let '(ff, fx_, fy_) := fixed in bcount ff + bcount fx_ + bcount fy_ + nextra.
Definition chunk {A} (n : nat) (j : nat) (l : list A) : list A := firstn n (skipn (j * n) l).
(* parameter errors of slot j of a group of n sources *)
Definition errs_of (n j : nat) (cov : option (list Z)) : list (option Z) :=
  match cov with
  | None => repeat None (Z.to_nat (if nfree =? 0 then 3 else nfree))
  | Some c => if (n =? 1)%nat then map Some c else map Some (chunk (Z.to_nat nfree) j c)
  end.

(* np.split(resid, cumsum(npixfit)[:-1]) *)
Fixpoint split_res (ns : list nat) (r : list Z) : list (list Z) :=
  match ns with
  | [] => [r]
  | [_] => [r]
  | n :: ns' => firstn n r :: split_res ns' (skipn n r)
  end.

(* per-source record, in the flattened group order *)
Record psrc := mkP {
  p_src : src; p_par : Z * Z * Z; p_info : fitout; p_errs : list (option Z);
  p_npix : nat; p_cen : option nat; p_gsize : nat; p_grp : nat; p_slot : nat; p_ext : list Z }.
Definition psrc0 := mkP src0 (0, 0, 0) fit0 [] 0 None 0 0 0 [].

Definition per_group (gi : nat) (r : gres) : list psrc :=
  let n := length (gr_srcs r) in
  map (fun j => let fd := nth j (gr_fd r) ([], None) in
                mkP (nth j (gr_srcs r) src0) (nth j (fo_par (gr_out r)) (0, 0, 0)) (gr_out r)
                    (errs_of n j (fo_cov (gr_out r))) (length (fst fd)) (snd fd) n gi j
                    (nth j (fo_ext (gr_out r)) []))
      (seq 0 n).
Fixpoint per_groups (gi : nat) (rs : list gres) : list psrc :=
  match rs with [] => [] | r :: rest => per_group gi r ++ per_groups (S gi) rest end.

(* ---- residual key: 'fun' wins over 'fvec' (decided on the first group) ---- *)
Inductive rkey := KFun | KFvec | KNone.
Definition pick_key (rs : list gres) : rkey :=
  match rs with
  | r :: _ => match fo_fun (gr_out r), fo_fvec (gr_out r) with
              | Some _, _ => KFun | None, Some _ => KFvec | None, None => KNone end
  | [] => KNone
  end.
Definition resid_of (k : rkey) (fo : fitout) : list Z :=
  match k with
  | KFun => match fo_fun fo with Some v => v | None => [] end
  | KFvec => match fo_fvec fo with Some v => v | None => [] end
  | KNone => []
  end.
Definition group_resids (k : rkey) (r : gres) : list (list Z) :=
  split_res (map (fun fd => length (fst fd)) (gr_fd r)) (resid_of k (gr_out r)).

(* ---- _get_fit_error_indices ---- *)
Definition fit_error (fo : fitout) : bool :=
  match fo_ierr fo with
  | Some ie => negb ((ie =? 1) || (ie =? 2) || (ie =? 3) || (ie =? 4))
  | None => match fo_status fo with Some st => (st =? -1) || (st =? 0) | None => false end
  end.

(* ---- _define_flags ---- *)
Definition b2z (b : bool) : Z := if b then 1 else 0.
Definition at_bound (b : option (Z * Z)) (v : Z) : bool :=
  match b with Some (l, h) => (l - v =? 0) || (h - v =? 0) | None => false end.
Definition flag1 (p : psrc) := Z.of_nat (p_npix p) <? fy * fx.
Definition flag2 (p : psrc) :=
  let '(x, y, _) := p_par p in (x <? 0) || (y <? 0) || (nx * sc <? x) || (ny * sc <? y).
Definition flag4 (p : psrc) := let '(_, _, f) := p_par p in f <=? 0.
Definition flag8 (p : psrc) := fit_error (p_info p).
(* REPAIRED (fixes/C12-2): fit_info.get('param_cov') is None *)
Definition flag16 (p : psrc) := match fo_cov (p_info p) with None => true | Some _ => false end.
(* HEAD: fit_info['param_cov'] raises KeyError for exactly those fits (the key is only
   stored when the value is not None) and the except clause leaves the loop *)
Definition flag16_head (p : psrc) := false.
Definition flag32 (p : psrc) :=
  match xyb with
  | None => false
  | Some _ => let '(x, y, _) := p_par p in
              at_bound (xbound (p_src p)) x || at_bound (ybound (p_src p)) y
  end.
Definition flags (p : psrc) : Z :=
  b2z (flag1 p) + 2 * b2z (flag2 p) + 4 * b2z (flag4 p) + 8 * b2z (flag8 p)
  + 16 * b2z (flag16 p) + 32 * b2z (flag32 p).

(* ---- error columns ---- *)
Definition err_cols (p : psrc) : option Z * option Z * option Z :=
  let '(ff, fx_, fy_) := fixed in
  let ix := if ff then 0%nat else 1%nat in
  let iy := (ix + (if fx_ then 0 else 1))%nat in
  let get (fixd : bool) (i : nat) := if fixd then None else nth i (p_errs p) None in
  (get fx_ ix, get fy_ iy, get ff 0%nat).

(* ---- fit metrics: exact numerators; the quotient by flux_fit is taken by the caller ---- *)
Definition zabs_sum (l : list Z) := fold_right (fun v a => Z.abs v + a) 0 l.
Definition qfit_num (k : rkey) (res : list Z) : option Z :=
  match k with KNone => None | _ => Some (zabs_sum res) end.
Definition cfit_num (k : rkey) (res : list Z) (cen : option nat) : option Z :=
  match k, cen with
  | KNone, _ => None
  | _, None => None
  | _, Some c => Some (- nth c res 0)
  end.

(* ---- output row ---- *)
Record orow := mkRow {
  o_src : src; o_gsize : Z; o_fit : Z * Z * Z; o_err : option Z * option Z * option Z;
  o_npix : Z; o_flags : Z; o_qnum : option Z; o_cnum : option Z;
  o_grp : nat; o_slot : nat; o_ext : list Z }.

Record result := mkRes {
  res_err : option err; res_calls : list callin; res_rows : list orow; res_errind : list Z }.

(* join(init_params, fit_params): init rows sorted by id, fit rows carry id = 1..N in
   the order produced by _order_by_id; rows pair up when the ids are equal *)
Definition join_rows (init : list src) (fitrows : list (psrc * list Z)) : list (src * (psrc * list Z)) :=
  flat_map (fun si => match nth_error fitrows (Z.to_nat (s_id si - 1)) with
                      | Some f => if 1 <=? s_id si then [(si, f)] else []
                      | None => [] end)
           (sort_by s_id init).

Definition photometry (srcs : list src) : result :=
  if existsb invalid srcs then mkRes (Some ENoOverlap) [] [] [] else
  let grouped := sort_by s_gid srcs in                     (* init_params.group_by('group_id') *)
  let idx := argsort (map s_id grouped) in                 (* np.argsort(sources['id']) *)
  let '(calls, e, rs) := fit_groups 0 (runs s_gid grouped) in
  match e with
  | Some e => mkRes (Some e) calls [] []
  | None =>
      let k := pick_key rs in
      let ps := order_by idx (per_groups 0 rs) psrc0 in    (* models, infos, errs, npixfit, ... *)
      let resids := order_by idx (flat_map (group_resids k) rs) [] in
      let fitrows := combine ps resids in
      let joined := join_rows srcs fitrows in
      if negb (length joined =? length srcs)%nat then mkRes (Some EInternal) calls [] [] else
      mkRes None calls
        (map (fun '(si, (p, r)) =>
                mkRow si (Z.of_nat (p_gsize p)) (p_par p) (err_cols p) (Z.of_nat (p_npix p))
                      (flags p) (qfit_num k r) (cfit_num k r (p_cen p)) (p_grp p) (p_slot p) (p_ext p))
             joined)
        (map (fun i => Z.of_nat i)
             (filter (fun i => flag8 (nth i ps psrc0)) (seq 0 (length ps))))
  end.
End Phot.

(* ---------------- _prepare_init_params: ids and group ids ---------------- *)
Inductive grouping := GId | GUser (g : list Z) | GSep (t : Z).
Definition srcin := (Z * Z * Z * Z)%type.   (* x, y, flux_init, local_bkg *)

Definition default_ids (n : nat) : list Z := map Z.of_nat (seq 1 n).   (* np.arange(n) + 1 *)
Definition group_ids (g : grouping) (ids : list Z) (xy : list (Z * Z)) : option (list Z) :=
  match g with
  | GId => Some ids                         (* init_params['id'].copy() *)
  | GUser l => Some l
  | GSep t => option_map (map Z.of_nat) (group_sources xy t)
  end.
(* HEAD: `if 'group_id' in colnames: self.grouper = None`, then the `else` branch of
   `if self.grouper is not None` assigns init_params['id'].copy() to the column *)
Definition group_ids_head (g : grouping) (ids : list Z) (xy : list (Z * Z)) : option (list Z) :=
  match g with
  | GId => Some ids
  | GUser _ => Some ids
  | GSep t => option_map (map Z.of_nat) (group_sources xy t)
  end.
Definition mk_srcs (ids gids : list Z) (ins : list srcin) : list src :=
  map (fun '(i, g, (x, y, f, b)) => mkSrc i g x y f b) (combine (combine ids gids) ins).

(* ---------------- correspondence ---------------- *)
Definition oz_eqb := opt_eqb Z.eqb.
Definition ozl_eqb := list_eqb oz_eqb.
Definition SZ (l : list Z) : list (option Z) := map Some l.
Definition enc_b (b : option (Z * Z)) : list (option Z) :=
  match b with Some (l, h) => [Some l; Some h] | None => [None; None] end.
Definition enc_call (c : callin) : list (list (option Z)) :=
  [ SZ (ci_ids c);
    flat_map (fun '(x, y, f) => [Some x; Some y; Some f]) (ci_init c);
    flat_map enc_b (ci_bx c); flat_map enc_b (ci_by c);
    SZ (ci_yi c); SZ (ci_xi c); ci_cut c ].
Definition enc_row (r : orow) : list (option Z) :=
  let s := o_src r in
  let '(xf, yf, ff) := o_fit r in let '(xe, ye, fe) := o_err r in
  [ Some (s_id s); Some (s_gid s); Some (o_gsize r); Some (s_bkg s);
    Some (s_x s); Some (s_y s); Some (s_flux s); Some xf; Some yf; Some ff;
    xe; ye; fe; Some (o_npix r); Some (o_flags r) ] ++ map Some (o_ext r).

(* impl value q = m * 2^(-k) (k may be negative) against the exact quotient num/den:
   q is within one rounding (relative 2^-52) of num/den; exact quotients pass with 0 *)
Definition pow2 (k : Z) : Z := 2 ^ k.
Definition quot_ok (num den : Z) (q : option (Z * Z)) : bool :=
  match q with
  | None => den =? 0
  | Some (m, k) =>
      negb (den =? 0) &&
      (let a := if 0 <=? k then 1 else pow2 (- k) in       (* q = m * a / b *)
       let b := if 0 <=? k then pow2 k else 1 in
       Z.abs (m * a * den - num * b) * pow2 52 <=? Z.abs num * b)
  end.
Definition metric_ok (num : option Z) (den : Z) (q : option (Z * Z)) : bool :=
  match num with
  | None => match q with None => true | Some _ => false end
  | Some n => quot_ok n den q
  end.

Definition err_code (e : option err) : Z :=
  match e with None => 0 | Some ENoOverlap => 1 | Some EMasked => 2 | Some EWeights => 3
             | Some EInternal => 9 end.

Definition cfg := (Z * Z * Z * Z * Z)%type.                      (* ny nx fy fx sc *)
Definition fitrec := (list (Z * Z * Z) * option Z * option Z * option (list Z)
                      * option (list Z) * option (list Z) * list (list Z))%type.
Definition mk_fit (f : fitrec) : fitout :=
  let '(p, ie, st, cov, fv, fn, ext) := f in mkFit p ie st cov fv fn ext.
Definition expected := (Z * bool * list (list (list (option Z))) * list (list (option Z))
                        * list (option (Z * Z) * option (Z * Z)) * list Z)%type.
Definition case := (cfg * (list bool * option (list bool)) * list (option Z) * option (list bool)
                    * option (option Z * option Z) * (bool * bool * bool * Z)
                    * (option (list Z) * grouping * list srcin)
                    * list fitrec * bool * expected)%type.

Definition run_model (c : case) : option (bool * result) :=
  let '(cf, (fin, mask), data, errbad, xyb, (fixd, nextra), (ids, grp, ins), fits, _, _) := c in
  let '(ny, nx, fy, fx, sc) := cf in
  let '(m, warn) := make_mask fin mask in
  let ids' := match ids with Some l => l | None => default_ids (length ins) end in
  match group_ids grp ids' (map (fun '(x, y, _, _) => (x, y)) ins) with
  | None => None
  | Some gids =>
      Some (warn, photometry ny nx fy fx sc m data errbad xyb fixd nextra
                    (fun k _ => mk_fit (nth k fits ([], None, None, None, None, None, [])))
                    (mk_srcs ids' gids ins))
  end.

Definition check_case (c : case) : bool :=
  let '(_, _, _, _, _, _, _, _, cmpcut, ex) := c in
  let '(ecode, ewarn, ecalls, erows, emetrics, eerrind) := ex in
  match run_model c with
  | None => false
  | Some (warn, r) =>
      (err_code (res_err r) =? ecode) && Bool.eqb warn ewarn
      && list_eqb (list_eqb ozl_eqb)
           (map (fun c => let e := enc_call c in if cmpcut then e else firstn 6 e) (res_calls r))
           (map (fun e => if cmpcut then e else firstn 6 e) ecalls)
      && list_eqb ozl_eqb (map enc_row (res_rows r)) erows
      && (length emetrics =? length (res_rows r))%nat
      && forallb (fun '(row, (q, c)) =>
                    let '(_, _, ff) := o_fit row in
                    metric_ok (o_qnum row) ff q && metric_ok (o_cnum row) ff c)
                 (combine (res_rows r) emetrics)
      && zlist_eqb (res_errind r) eerrind
  end.

Definition model_out (c : case) :=
  match run_model c with
  | None => None
  | Some (warn, r) =>
      Some (warn, err_code (res_err r), map enc_call (res_calls r), map enc_row (res_rows r),
            map (fun row => (o_qnum row, o_cnum row)) (res_rows r), res_errind r)
  end.

(* SourceGrouper()(x, y) alone *)
Definition gcase := (list (Z * Z) * Z * list Z)%type.
Definition check_grouper (c : gcase) : bool :=
  let '(pos, t, got) := c in
  match group_sources pos t with
  | Some l => zlist_eqb (map Z.of_nat l) got
  | None => false
  end.
