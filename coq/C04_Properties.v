(* C04 — detect_sources is exact connected-component labelling above threshold.
   Property theorems only; each is closed by [exact] of a lemma of C04_Proofs.
   Notation: pixels are raster indices p = y*nx + x < ny*nx; [fg fgl p] says that
   pixel p is unmasked, finite and strictly above its threshold ([fg_of_spec]);
   [pconn] is the reflexive-transitive closure of 4-/8-adjacency between foreground
   pixels; [comp_size p k] says the connected component of p has exactly k pixels;
   [qualifies p] = foreground and component size >= npixels. *)
From Coq Require Import List Arith ZArith Bool.
From PV Require Import lib.Cases lib.Conn C04_Model C04_Proofs.
Import ListNotations.

(* the model always terminates with an answer (the fuel bound is a theorem) *)
Theorem detect_total : forall ny nx conn8 npix fgl, detect ny nx conn8 npix fgl <> Fuel.
Proof. exact detect_not_fuel. Qed.
Print Assumptions detect_total.

(* returned segments = exactly the components with >= npixels pixels, labelled
   1..N without gaps, in raster order of each component's first pixel *)
Theorem detect_spec : forall ny nx conn8 npix fgl out,
  detect ny nx conn8 npix fgl = Seg out ->
  length out = npx ny nx /\
  (forall p, p < npx ny nx -> (nth p out 0 <> 0 <-> qualifies ny nx conn8 npix fgl p)) /\
  (forall p q, p < npx ny nx -> q < npx ny nx -> nth p out 0 <> 0 -> nth q out 0 <> 0 ->
      (nth p out 0 = nth q out 0 <-> pconn ny nx conn8 fgl p q)) /\
  (exists N, (forall p, p < npx ny nx -> nth p out 0 <= N) /\
      forall k, 1 <= k <= N -> exists p, p < npx ny nx /\ nth p out 0 = k) /\
  (forall p q, p < npx ny nx -> q < npx ny nx -> nth p out 0 <> 0 -> nth q out 0 <> 0 ->
      (forall p', p' < npx ny nx -> nth p' out 0 = nth p out 0 -> p <= p') ->
      (forall q', q' < npx ny nx -> nth q' out 0 = nth q out 0 -> q <= q') ->
      (p < q <-> nth p out 0 < nth q out 0)).
Proof. exact detect_seg. Qed.
Print Assumptions detect_spec.

(* None iff no component qualifies *)
Theorem detect_none_iff : forall ny nx conn8 npix fgl,
  detect ny nx conn8 npix fgl = NoDet <-> (forall p, p < npx ny nx -> ~ qualifies ny nx conn8 npix fgl p).
Proof. exact detect_nodet. Qed.
Print Assumptions detect_none_iff.

(* component sizes are well defined (so [qualifies] is never vacuous) *)
Theorem component_size_defined : forall ny nx conn8 fgl p,
  p < npx ny nx -> fg fgl p = true -> exists k, comp_size ny nx conn8 fgl p k /\ 1 <= k.
Proof. exact comp_size_exists. Qed.
Print Assumptions component_size_defined.
Theorem component_size_unique : forall ny nx conn8 fgl p k k',
  comp_size ny nx conn8 fgl p k -> comp_size ny nx conn8 fgl p k' -> k = k'.
Proof. exact comp_size_unique. Qed.
Print Assumptions component_size_unique.

(* the threshold is strict, NaN (None) and masked pixels are never foreground *)
Theorem foreground_is_strict_unmasked_finite : forall data thr mask p,
  nth_error (fg_of data thr mask) p = Some true <->
  exists d t, nth_error data p = Some (Some d) /\ nth_error thr p = Some (Some t) /\
              nth_error mask p = Some false /\ (t < d)%Z.
Proof. exact fg_of_spec. Qed.
Print Assumptions foreground_is_strict_unmasked_finite.

(* non-vacuity: a 3x4 image, 4-connectivity, npixels = 2; ties at the threshold are
   background; the diagonal contact does not join; the single pixel is dropped *)
Example detect_example :
  detect 3 4 false 2 (fg_of (map Some [5;5;1;7; 1;1;5;1; 9;9;1;1]%Z)
                            (map Some [1;1;1;1; 1;1;1;1; 1;1;1;1]%Z)
                            (repeat false 12))
  = Seg [1;1;0;0; 0;0;0;0; 2;2;0;0].
Proof. vm_compute. reflexivity. Qed.
