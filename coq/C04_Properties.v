(* C04 — detect_sources is exact connected-component labelling above threshold.
   Property theorems only; each is closed by [exact] of a lemma of C04_Proofs.
   Notation: pixels are raster indices p = y*nx + x < ny*nx; [fg fgl p] says that
   pixel p is unmasked, finite and strictly above its threshold ([fg_of_spec]);
   [pconn] is the reflexive-transitive closure of 4-/8-adjacency between foreground
   pixels; [comp_size p k] says the connected component of p has exactly k pixels;
   [qualifies p] = foreground and component size >= npixels. *)
From Coq Require Import List Arith ZArith Bool.
From PV Require Import lib.Cases lib.Conn C04_Model C04_Proofs C04_PathModel C04_PathProofs.
Import ListNotations.

(* the model always terminates with an answer (the fuel bound is a theorem) *)
Theorem detect_total : forall ny nx conn8 npix fgl, detect ny nx conn8 npix fgl <> Fuel.
Proof. exact detect_not_fuel. Qed.
Print Assumptions detect_total.

(* returned segments = exactly the components with >= npixels pixels, labelled
   1..N without gaps, in raster order of each component's first pixel *)
Theorem detect_spec : forall ny nx conn8 npix fgl out,
  detect ny nx conn8 npix fgl = Seg out ->
  length out = npx ny nx /\
  (forall p, p < npx ny nx -> (nth p out 0 <> 0 <-> qualifies ny nx conn8 npix fgl p)) /\
  (forall p q, p < npx ny nx -> q < npx ny nx -> nth p out 0 <> 0 -> nth q out 0 <> 0 ->
      (nth p out 0 = nth q out 0 <-> pconn ny nx conn8 fgl p q)) /\
  (exists N, (forall p, p < npx ny nx -> nth p out 0 <= N) /\
      forall k, 1 <= k <= N -> exists p, p < npx ny nx /\ nth p out 0 = k) /\
  (forall p q, p < npx ny nx -> q < npx ny nx -> nth p out 0 <> 0 -> nth q out 0 <> 0 ->
      (forall p', p' < npx ny nx -> nth p' out 0 = nth p out 0 -> p <= p') ->
      (forall q', q' < npx ny nx -> nth q' out 0 = nth q out 0 -> q <= q') ->
      (p < q <-> nth p out 0 < nth q out 0)).
Proof. exact detect_seg. Qed.
Print Assumptions detect_spec.

(* None iff no component qualifies *)
Theorem detect_none_iff : forall ny nx conn8 npix fgl,
  detect ny nx conn8 npix fgl = NoDet <-> (forall p, p < npx ny nx -> ~ qualifies ny nx conn8 npix fgl p).
Proof. exact detect_nodet. Qed.
Print Assumptions detect_none_iff.

(* component sizes are well defined (so [qualifies] is never vacuous) *)
Theorem component_size_defined : forall ny nx conn8 fgl p,
  p < npx ny nx -> fg fgl p = true -> exists k, comp_size ny nx conn8 fgl p k /\ 1 <= k.
Proof. exact comp_size_exists. Qed.
Print Assumptions component_size_defined.
Theorem component_size_unique : forall ny nx conn8 fgl p k k',
  comp_size ny nx conn8 fgl p k -> comp_size ny nx conn8 fgl p k' -> k = k'.
Proof. exact comp_size_unique. Qed.
Print Assumptions component_size_unique.

(* the threshold is strict, NaN (None) and masked pixels are never foreground *)
Theorem foreground_is_strict_unmasked_finite : forall data thr mask p,
  nth_error (fg_of data thr mask) p = Some true <->
  exists d t, nth_error data p = Some (Some d) /\ nth_error thr p = Some (Some t) /\
              nth_error mask p = Some false /\ (t < d)%Z.
Proof. exact fg_of_spec. Qed.
Print Assumptions foreground_is_strict_unmasked_finite.

(* non-vacuity: a 3x4 image, 4-connectivity, npixels = 2; ties at the threshold are
   background; the diagonal contact does not join; the single pixel is dropped *)
Example detect_example :
  detect 3 4 false 2 (fg_of (map Some [5;5;1;7; 1;1;5;1; 9;9;1;1]%Z)
                            (map Some [1;1;1;1; 1;1;1;1; 1;1;1;1]%Z)
                            (repeat false 12))
  = Seg [1;1;0;0; 0;0;0;0; 2;2;0;0].
Proof. vm_compute. reflexivity. Qed.

(* ====================================================================================== *)
(* The staged code path and the pre-seeded caches (C04_PathModel.detect_path mirrors       *)
(* _detect_sources stage by stage: scipy label numbering, find_objects BEFORE removal,     *)
(* removal through cutout views, label-map array only when something was removed,          *)
(* pre-seeded labels / slices; areas are counted through the cached slices).               *)
(* ====================================================================================== *)

Theorem detect_path_total : forall ny nx conn8 npix fgl, detect_path ny nx conn8 npix fgl <> PFuel.
Proof. exact path_not_fuel. Qed.
Print Assumptions detect_path_total.

(* refinement: the staged path returns exactly the label array of [detect] (hence [detect_spec]
   holds for it), None in exactly the same cases, and its pre-seeded labels / slices are 1..N and
   the tight boxes of the FINAL array — although the slices were computed on the scipy-numbered
   array before any component was removed or renumbered *)
Theorem staged_path_refines_detect : forall ny nx conn8 npix fgl,
  match detect ny nx conn8 npix fgl with
  | Fuel => False
  | NoDet => detect_path ny nx conn8 npix fgl = PNoDet
  | Seg out => detect_path ny nx conn8 npix fgl =
               PSeg out (seq 1 (nlabels out)) (map (slice_of nx out) (seq 1 (nlabels out)))
  end.
Proof. exact detect_path_refines. Qed.
Print Assumptions staged_path_refines_detect.

(* the removal loop in closed form: given distinct non-zero labels whose slices contain all their
   pixels, it zeroes exactly the labels with fewer than npixels pixels, touches nothing else, and
   returns the other labels with their ORIGINAL slices, in order *)
Theorem removal_loop_closed_form : forall nx npix ls img,
  NoDup (map fst ls) -> ~ In 0 (map fst ls) ->
  (forall l s, In (l, s) ls -> covers nx img s l) ->
  prune nx npix img ls =
    (map (kill (removed npix img (map fst ls))) img,
     (filter (keepc npix img) (map fst ls), map snd (filter (fun x => keepc npix img (fst x)) ls))).
Proof. exact prune_closed. Qed.
Print Assumptions removal_loop_closed_form.

(* the relabel array: i-th kept label -> i+1, every other index (0, removed labels) -> 0; with
   max(labels)+1 entries no index is out of range *)
Theorem label_map_array_spec : forall M kl v, NoDup kl -> (forall l, In l kl -> l <= M) ->
  nth v (label_map M kl) 0 = if memb v kl then S (index_of v kl) else 0.
Proof. exact label_map_spec. Qed.
Print Assumptions label_map_array_spec.

(* labels = [1..N], N = number of qualifying components (R lists the first pixel of each) *)
Theorem labels_are_1_to_N : forall ny nx conn8 npix fgl out labels slices,
  detect_path ny nx conn8 npix fgl = PSeg out labels slices ->
  exists R, NoDup R /\
    (forall r, In r R <-> r < npx ny nx /\ qualifies ny nx conn8 npix fgl r /\
                          (forall q, q < npx ny nx -> pconn ny nx conn8 fgl r q -> r <= q)) /\
    labels = seq 1 (length R) /\
    (forall p, p < npx ny nx -> nth p out 0 <= length R) /\
    (forall k, In k labels -> exists p, p < npx ny nx /\ nth p out 0 = k).
Proof. exact path_labels. Qed.
Print Assumptions labels_are_1_to_N.

(* areas (counted through the pre-seeded slices) = number of pixels carrying the label = size of
   that connected component *)
Theorem areas_are_component_sizes : forall ny nx conn8 npix fgl out labels slices,
  detect_path ny nx conn8 npix fgl = PSeg out labels slices ->
  areas_of nx out labels slices = map (area_of out) labels /\
  (forall p, p < npx ny nx -> nth p out 0 <> 0 -> comp_size ny nx conn8 fgl p (area_of out (nth p out 0))) /\
  (forall k, In k labels -> exists p, p < npx ny nx /\ nth p out 0 = k /\
        nth (k - 1) (areas_of nx out labels slices) 0 = area_of out k /\
        comp_size ny nx conn8 fgl p (area_of out k)).
Proof. exact path_areas. Qed.
Print Assumptions areas_are_component_sizes.

(* slice k-1 is the smallest row/column range containing every pixel labelled k *)
Theorem slices_are_tight_bounding_boxes : forall ny nx conn8 npix fgl out labels slices,
  detect_path ny nx conn8 npix fgl = PSeg out labels slices ->
  length slices = length labels /\
  forall k, 1 <= k <= length labels ->
    let '((y0, y1), (x0, x1)) := nth (k - 1) slices ((0, 0), (0, 0)) in
    (forall p, p < npx ny nx -> nth p out 0 = k -> y0 <= p / nx < y1 /\ x0 <= p mod nx < x1) /\
    (exists p, p < npx ny nx /\ nth p out 0 = k /\ p / nx = y0) /\
    (exists p, p < npx ny nx /\ nth p out 0 = k /\ S (p / nx) = y1) /\
    (exists p, p < npx ny nx /\ nth p out 0 = k /\ p mod nx = x0) /\
    (exists p, p < npx ny nx /\ nth p out 0 = k /\ S (p mod nx) = x1).
Proof. exact path_slices. Qed.
Print Assumptions slices_are_tight_bounding_boxes.

(* the pre-seeded caches can never disagree with the array: they equal what a fresh
   SegmentationImage derives from the label array alone (both branches of its `labels`) *)
Theorem preseeded_agree : forall ny nx conn8 npix fgl out labels slices,
  detect_path ny nx conn8 npix fgl = PSeg out labels slices ->
  labels = fresh_labels out /\ labels = fresh_labels_from_raw nx out /\
  slices = fresh_slices nx out /\ areas_of nx out labels slices = fresh_areas nx out.
Proof. exact path_fresh. Qed.
Print Assumptions preseeded_agree.

(* universal facts about the fresh derivation (ANY label array, gaps allowed) *)
Theorem fresh_labels_two_branches_agree : forall nx out, fresh_labels_from_raw nx out = fresh_labels out.
Proof. exact fresh_labels_branches. Qed.
Print Assumptions fresh_labels_two_branches_agree.
Theorem fresh_slices_are_boxes_of_fresh_labels : forall nx out,
  fresh_slices nx out = map (slice_of nx out) (fresh_labels out).
Proof. exact fresh_slices_eq. Qed.
Print Assumptions fresh_slices_are_boxes_of_fresh_labels.
Theorem fresh_areas_are_pixel_counts : forall nx out, fresh_areas nx out = map (area_of out) (fresh_labels out).
Proof. exact fresh_areas_eq. Qed.
Print Assumptions fresh_areas_are_pixel_counts.
Theorem tight_box_contains_and_touches : forall nx out l, 0 < nx ->
  (forall p, p < length out -> nth p out 0 = l -> in_slice nx (slice_of nx out l) p = true) /\
  ((exists p, p < length out /\ nth p out 0 = l) ->
   let '((y0, y1), (x0, x1)) := slice_of nx out l in
   (exists p, p < length out /\ nth p out 0 = l /\ p / nx = y0) /\
   (exists p, p < length out /\ nth p out 0 = l /\ S (p / nx) = y1) /\
   (exists p, p < length out /\ nth p out 0 = l /\ p mod nx = x0) /\
   (exists p, p < length out /\ nth p out 0 = l /\ S (p mod nx) = x1)).
Proof. intros nx out l Hnx. split; [exact (slice_of_contains nx out l)|exact (slice_of_tight nx out l Hnx)]. Qed.
Print Assumptions tight_box_contains_and_touches.

(* less foreground (more mask, higher threshold) or a larger npixels never creates a detection *)
Theorem detect_monotone : forall ny nx conn8 npix npix' fgl fgl',
  (forall p, p < npx ny nx -> fg fgl' p = true -> fg fgl p = true) -> npix <= npix' ->
  forall out', detect ny nx conn8 npix' fgl' = Seg out' ->
  exists out, detect ny nx conn8 npix fgl = Seg out /\
    forall p, p < npx ny nx -> nth p out' 0 <> 0 -> nth p out 0 <> 0.
Proof. exact detect_mono. Qed.
Print Assumptions detect_monotone.
Theorem foreground_monotone : forall data thr thr' mask mask' p,
  (forall t', nth_error thr' p = Some (Some t') -> exists t, nth_error thr p = Some (Some t) /\ (t <= t')%Z) ->
  (nth_error mask' p = Some false -> nth_error mask p = Some false) ->
  nth_error (fg_of data thr' mask') p = Some true -> nth_error (fg_of data thr mask) p = Some true.
Proof. exact fg_of_mono. Qed.
Print Assumptions foreground_monotone.

(* non-vacuity.  4x4, 4-connectivity, npixels = 2: scipy numbers 4 components; the 2nd and 3rd
   (single pixels) are removed, so the label map sends 1->1, 4->2; the kept slices are the
   original boxes of scipy labels 1 and 4 *)
Example detect_path_example_relabel :
  detect_path 4 4 false 2 [true;true;false;true; false;false;true;false; true;true;false;false; true;false;false;false]
  = PSeg [1;1;0;0; 0;0;0;0; 2;2;0;0; 2;0;0;0] [1;2] [((0,1),(0,2)); ((2,4),(0,2))].
Proof. vm_compute. reflexivity. Qed.
(* nothing removed: no relabelling branch *)
Example detect_path_example_keep_all :
  detect_path 2 3 true 1 [true;false;true; false;false;true]
  = PSeg [1;0;2; 0;0;2] [1;2] [((0,1),(0,1)); ((0,2),(2,3))].
Proof. vm_compute. reflexivity. Qed.
Example detect_path_example_none :
  detect_path 2 2 true 3 [true;false; false;true] = PNoDet /\ detect_path 2 2 true 1 [false;false;false;false] = PNoDet.
Proof. vm_compute. split; reflexivity. Qed.
(* the fresh derivation on an array with a gap (label 2 missing) *)
Example fresh_example_gap :
  let out := [1;1;0;0; 0;0;0;3; 0;3;3;3] in
  fresh_labels out = [1;3] /\ fresh_labels_from_raw 4 out = [1;3] /\
  fresh_slices 4 out = [((0,1),(0,2)); ((1,3),(1,4))] /\ fresh_areas 4 out = [2;4].
Proof. vm_compute. repeat split; reflexivity. Qed.
(* the hypotheses of [detect_monotone] are satisfiable with a strict inclusion *)
Example detect_monotone_example :
  detect 2 3 true 2 [true;true;false; false;false;true] = Seg [1;1;0; 0;0;1] /\
  detect 2 3 true 2 [true;true;false; false;false;false] = Seg [1;1;0; 0;0;0].
Proof. vm_compute. split; reflexivity. Qed.
