(* C12 -- PSF photometry keeps its bookkeeping straight.
   Property theorems only; each is closed by [exact] of a lemma of C12_Proofs / C12_ProofsB.

   Vocabulary.  Real quantities are integers scaled by [sc].  A source is
   [mkSrc id group_id x y flux_init local_bkg].  [photometry ... fitter srcs] is the model of
   PSFPhotometry.__call__ after _prepare_init_params; [fitter k ci] is the (unmodelled,
   arbitrary) answer of the k-th fitter call given the compound model / pixel lists [ci].
   [group_of srcs s] = the sources sharing s's group id, in input order (a plain [filter]).
   [own_row srcs calls key s row] (C12_ProofsB) says in table words that [row] describes
   source [s]: its init columns, group size, the fitted parameters / covariance slice /
   fit_info returned for the sub-model NAMED s in the call made for s's group, s's own
   npixfit, centre index, residual slice, flags.  None of these specifications mentions the
   stable sort, the runs, argsort or the inverse permutation used by the code. *)
From Coq Require Import List Arith ZArith Bool Relations Sorted Permutation.
From PV Require Import lib.Cases lib.Conn C12_Model C12_Proofs C12_ProofsB.
Import ListNotations.
Open Scope Z_scope.

(* ---- SourceGrouper: group ids = connected components of the graph dist <= min_separation
        (single linkage), numbered from 1 in order of first appearance ---- *)
Theorem grouper_is_single_linkage : forall (pos : list (Z * Z)) (t : Z),
  exists l, group_sources pos t = Some l /\ length l = gn pos /\
    (forall i j, (i < gn pos)%nat -> (j < gn pos)%nat ->
       (nth i l 0%nat = nth j l 0%nat <-> linked pos t i j)) /\
    (forall i, (i < gn pos)%nat -> (1 <= nth i l 0 <= S (pmax (firstn i l)))%nat).
Proof. exact group_sources_spec. Qed.
Print Assumptions grouper_is_single_linkage.

(* ---- the un-grouping permutation: for EVERY assignment of group ids (interleaved, any
        sizes) and every fitter, output row i describes the source whose id is i+1 ---- *)
Theorem ungroup_restores_id_order :
  forall ny nx fy fx sc msk data errbad xyb fixed nextra fitter (srcs : list src) (r : result),
  Permutation (map s_id srcs) (default_ids (length srcs)) ->
  photometry ny nx fy fx sc msk data errbad xyb fixed nextra fitter srcs = r -> res_err r = None ->
  let key := match res_calls r with c :: _ => key_of (fitter 0%nat c) | [] => KNone end in
  map s_id (sort_by s_id srcs) = default_ids (length srcs) /\
  Forall2 (own_row ny nx fy fx sc msk xyb fixed nextra fitter srcs (res_calls r) key)
          (sort_by s_id srcs) (res_rows r).
Proof. exact photometry_own_rows. Qed.
Print Assumptions ungroup_restores_id_order.

(* the same with the row given as a closed term ([spec_row]: every column of the row as a
   function of the source alone) *)
Theorem rows_equal_per_source_specification :
  forall ny nx fy fx sc msk data errbad xyb fixed nextra fitter (srcs : list src) (r : result),
  Permutation (map s_id srcs) (default_ids (length srcs)) ->
  photometry ny nx fy fx sc msk data errbad xyb fixed nextra fitter srcs = r -> res_err r = None ->
  let key := match res_calls r with c :: _ => key_of (fitter 0%nat c) | [] => KNone end in
  map s_id (sort_by s_id srcs) = default_ids (length srcs) /\
  Forall2 (row_ok ny nx fy fx sc msk data errbad xyb fixed nextra fitter srcs (res_calls r) key)
          (sort_by s_id srcs) (res_rows r).
Proof. exact photometry_rows. Qed.
Print Assumptions rows_equal_per_source_specification.

(* ---- ids 1..N, one row per source, input order when the ids are the default ones ---- *)
Theorem ids_are_1_to_N :
  forall ny nx fy fx sc msk data errbad xyb fixed nextra fitter (srcs : list src) (r : result),
  Permutation (map s_id srcs) (default_ids (length srcs)) ->
  photometry ny nx fy fx sc msk data errbad xyb fixed nextra fitter srcs = r -> res_err r = None ->
  length (res_rows r) = length srcs /\
  map (fun row => s_id (o_src row)) (res_rows r) = default_ids (length srcs) /\
  Permutation (map o_src (res_rows r)) srcs /\
  (map s_id srcs = default_ids (length srcs) -> map o_src (res_rows r) = srcs).
Proof. exact photometry_ids. Qed.
Print Assumptions ids_are_1_to_N.

(* the pipeline entry: no id column given => ids 1..N in input order, rows in input order, the
   group_id column is the one assigned, for every assignment [gids] of group ids *)
Theorem rows_in_input_order_with_default_ids :
  forall ny nx fy fx sc msk data errbad xyb fixed nextra fitter (gids : list Z) (ins : list srcin) r,
  length gids = length ins ->
  let srcs := mk_srcs (default_ids (length ins)) gids ins in
  photometry ny nx fy fx sc msk data errbad xyb fixed nextra fitter srcs = r -> res_err r = None ->
  map o_src (res_rows r) = srcs /\
  map (fun row => s_id (o_src row)) (res_rows r) = default_ids (length ins) /\
  map (fun row => s_gid (o_src row)) (res_rows r) = gids.
Proof. exact default_ids_rows_in_input_order. Qed.
Print Assumptions rows_in_input_order_with_default_ids.

(* ---- one fitter call per distinct group id, in increasing group-id order; a call is given
        exactly the members of the group in input order ---- *)
Theorem one_fit_per_group_in_group_id_order :
  forall ny nx fy fx sc msk data errbad xyb fixed nextra fitter (srcs : list src) (r : result),
  photometry ny nx fy fx sc msk data errbad xyb fixed nextra fitter srcs = r -> res_err r = None ->
  exists gs,
    StronglySorted Z.lt (map (hk s_gid) gs) /\
    (forall g, In g gs -> g <> [] /\ g = filter (fun s => s_gid s =? hk s_gid g) srcs) /\
    (forall s, In s srcs -> In (group_of srcs s) gs) /\
    Forall2 (fun g ci => fit_data ny nx fy fx sc msk g = inr (fd_of ny nx fy fx sc msk g) /\
                         ci = make_call nx data xyb g (fd_of ny nx fy fx sc msk g))
            gs (res_calls r).
Proof. exact photometry_calls. Qed.
Print Assumptions one_fit_per_group_in_group_id_order.

(* the two facts about the code's method that make the above true, for every list and key:
   Table.group_by = stable sort whose runs are the equal-key sub-lists in input order, and
   indexing with argsort of the keys is that stable sort *)
Theorem table_groups_are_input_order_sublists : forall (A : Type) (key : A -> Z) (l : list A),
  let gs := runs key (sort_by key l) in
  concat gs = sort_by key l /\
  StronglySorted Z.lt (map (hk key) gs) /\
  (forall g, In g gs -> g <> [] /\ g = filter (fun x => key x =? hk key g) l) /\
  (forall x, In x l -> In (filter (fun y => key y =? key x) l) gs).
Proof. exact @groups_spec. Qed.
Print Assumptions table_groups_are_input_order_sublists.
Theorem order_by_argsort_is_stable_sort : forall (A : Type) (key : A -> Z) (l : list A) (d : A),
  order_by (argsort (map key l)) l d = sort_by key l.
Proof. exact @order_by_argsort. Qed.
Print Assumptions order_by_argsort_is_stable_sort.

(* ---- npixfit = number of unmasked pixels of the fit_shape window that lie on the image;
        error cases; centre index ---- *)
Theorem npixfit_counts_unmasked_window : forall ny nx fy fx sc msk,
  0 < fy -> 0 < fx -> 0 <= ny -> 0 <= nx -> forall s,
  match fit_data1 ny nx fy fx sc msk s with
  | inr (px, cen) =>
      NoDup px /\ px <> [] /\
      (forall y x, In (y, x) px <-> inwin ny nx fy fx sc s y x /\ masked nx msk (y, x) = false) /\
      match cen with
      | Some c => nth_error px c = Some (centre sc s)
      | None => ~ In (centre sc s) px
      end
  | inl ENoOverlap => forall y x, ~ inwin ny nx fy fx sc s y x
  | inl EMasked => (exists y x, inwin ny nx fy fx sc s y x) /\
                   forall y x, inwin ny nx fy fx sc s y x -> masked nx msk (y, x) = true
  | inl _ => False
  end.
Proof. exact fit_data1_spec. Qed.
Print Assumptions npixfit_counts_unmasked_window.

(* the window starts at ceil(pos - fit_shape/2) *)
Theorem window_origin_is_ceil : forall sc, 0 < sc -> forall c f,
  2 * sc * (lo sc c f - 1) < 2 * c - f * sc <= 2 * sc * lo sc c f.
Proof. exact lo_spec. Qed.
Print Assumptions window_origin_is_ceil.

(* npixfit = fy*fx exactly when the whole window is on the image and unmasked (flag 1) *)
Theorem npixfit_full_iff_window_clean : forall ny nx fy fx sc msk,
  0 < fy -> 0 < fx -> 0 <= ny -> 0 <= nx -> forall s px cen,
  fit_data1 ny nx fy fx sc msk s = inr (px, cen) ->
  Z.of_nat (length px) <= fy * fx /\
  (Z.of_nat (length px) = fy * fx <->
   forall y x, inbox fy fx sc s y x -> (0 <= y < ny /\ 0 <= x < nx) /\ masked nx msk (y, x) = false).
Proof. exact npixfit_full. Qed.
Print Assumptions npixfit_full_iff_window_clean.

Theorem no_overlap_error_iff_window_off_image : forall ny nx fy fx sc,
  0 < sc -> 0 < fy -> 0 < fx -> forall s, 0 < ny -> 0 < nx ->
  invalid ny nx fy fx sc s = true <-> forall y x, ~ inwin ny nx fy fx sc s y x.
Proof. exact invalid_spec. Qed.
Print Assumptions no_overlap_error_iff_window_off_image.

(* ---- flags, bit by bit ---- *)
Theorem flags_as_documented : forall ny nx fy fx sc xyb p,
  (0 <= flags ny nx fy fx sc xyb p < 64 /\
   Z.testbit (flags ny nx fy fx sc xyb p) 0 = flag1 fy fx p /\
   Z.testbit (flags ny nx fy fx sc xyb p) 1 = flag2 ny nx sc p /\
   Z.testbit (flags ny nx fy fx sc xyb p) 2 = flag4 p /\
   Z.testbit (flags ny nx fy fx sc xyb p) 3 = flag8 p /\
   Z.testbit (flags ny nx fy fx sc xyb p) 4 = flag16 p /\
   Z.testbit (flags ny nx fy fx sc xyb p) 5 = flag32 xyb p).
Proof. exact flags_bits. Qed.
Print Assumptions flags_as_documented.

Theorem flag_bits_mean_what_is_documented : forall ny nx fy fx sc xyb p,
  let '(x, y, f) := p_par p in
  (flag1 fy fx p = true <-> Z.of_nat (p_npix p) < fy * fx) /\
  (flag2 ny nx sc p = true <-> x < 0 \/ y < 0 \/ nx * sc < x \/ ny * sc < y) /\
  (flag4 p = true <-> f <= 0) /\
  (flag8 p = true <->
     match fo_ierr (p_info p), fo_status (p_info p) with
     | Some ie, _ => ~ (1 <= ie <= 4)
     | None, Some st => st = -1 \/ st = 0
     | None, None => False
     end) /\
  (flag16 p = true <-> fo_cov (p_info p) = None) /\
  (flag32 xyb p = true <->
     exists bx by_, xyb = Some (bx, by_) /\
       ((exists b, bx = Some b /\ (x = s_x (p_src p) - b \/ x = s_x (p_src p) + b)) \/
        (exists b, by_ = Some b /\ (y = s_y (p_src p) - b \/ y = s_y (p_src p) + b)))).
Proof. exact flags_meaning. Qed.
Print Assumptions flag_bits_mean_what_is_documented.

(* ---- _make_mask (repaired code): the mask handed on = caller's mask OR non-finite data;
        the warning is emitted iff some non-finite pixel was not already masked ---- *)
Theorem make_mask_includes_nonfinite : forall fin mask,
  match mask with Some m => length m = length fin | None => True end ->
  (forall p, mask_at (fst (make_mask fin mask)) p = negb (nth p fin true) || mask_at mask p) /\
  (snd (make_mask fin mask) = true <->
     exists p, (p < length fin)%nat /\ nth p fin true = false /\ mask_at mask p = false).
Proof. exact make_mask_spec. Qed.
Print Assumptions make_mask_includes_nonfinite.

(* the text at /repo HEAD (returns the caller's mask) violates it: DESIGN.md section 6, item 16 *)
Theorem make_mask_head_refuted :
  exists fin mask p, nth p fin true = false /\ mask_at (fst (make_mask_head fin (Some mask))) p = false.
Proof. exact make_mask_head_loses_nonfinite. Qed.
Print Assumptions make_mask_head_refuted.

(* ---- group ids: a supplied group_id column is used as given (repaired code, fixes/C12-3);
        with a SourceGrouper they are the single-linkage labels of [grouper_is_single_linkage];
        otherwise every source is its own group ---- *)
Theorem group_ids_are_supplied_or_grouper_or_id : forall ids xy,
  (forall l, group_ids (GUser l) ids xy = Some l) /\
  (forall t, group_ids (GSep t) ids xy = option_map (map Z.of_nat) (group_sources xy t)) /\
  group_ids GId ids xy = Some ids.
Proof. exact group_ids_spec. Qed.
Print Assumptions group_ids_are_supplied_or_grouper_or_id.
(* the text at /repo HEAD overwrites a supplied group_id column with the source ids *)
Theorem supplied_group_id_head_refuted :
  exists l ids xy, length l = length ids /\ group_ids_head (GUser l) ids xy <> Some l.
Proof. exact group_ids_head_overwrites. Qed.
Print Assumptions supplied_group_id_head_refuted.
(* the text at /repo HEAD never sets flag 16 (the KeyError leaves the loop) *)
Theorem flag16_head_refuted : exists p, fo_cov (p_info p) = None /\ flag16_head p = false.
Proof. exact flag16_head_never_set. Qed.
Print Assumptions flag16_head_refuted.

(* ---- clauses that depend on the optimiser: PARTIAL (pass-through form only) ----
   Full statements (NOT proved; tested as oracle / metamorphic relations by the harness):
     * on a noise-free scene rendered from the PSF model, the fitter started within a pixel of
       the truth returns the truth (exact recovery; residual image ~ 0);
     * image * k  =>  flux_fit * k;
     * a fixed parameter is never moved by the fitter;
     * IterativePSFPhotometry(maxiters=1) == PSFPhotometry.
   What is proved: IF each fitter call returns [truth id] for the sub-model named [id]
   (resp. leaves fixed parameters at their initial value), THEN the table row of every source
   carries exactly these values -- the bookkeeping never mixes sources up. *)
Theorem recovery_partial :
  forall ny nx fy fx sc msk data errbad xyb fixed nextra fitter (truth : Z -> Z * Z * Z)
         (srcs : list src) (r : result),
  (forall k ci, fo_par (fitter k ci) = map truth (ci_ids ci)) ->
  Permutation (map s_id srcs) (default_ids (length srcs)) ->
  photometry ny nx fy fx sc msk data errbad xyb fixed nextra fitter srcs = r -> res_err r = None ->
  Forall2 (fun s row => o_src row = s /\ o_fit row = truth (s_id s)) (sort_by s_id srcs) (res_rows r).
Proof. exact photometry_recovery. Qed.
Print Assumptions recovery_partial.

Theorem fixed_parameters_partial :
  forall ny nx fy fx sc msk data errbad xyb fixed nextra fitter (srcs : list src) (r : result),
  (forall k ci j v, nth_error (ci_init ci) j = Some v ->
                    agree_fixed fixed (nth j (fo_par (fitter k ci)) (0, 0, 0)) v) ->
  Permutation (map s_id srcs) (default_ids (length srcs)) ->
  photometry ny nx fy fx sc msk data errbad xyb fixed nextra fitter srcs = r -> res_err r = None ->
  Forall2 (fun s row => o_src row = s /\ agree_fixed fixed (o_fit row) (init_of s))
          (sort_by s_id srcs) (res_rows r).
Proof. exact photometry_fixed. Qed.
Print Assumptions fixed_parameters_partial.

(* ---------------- non-vacuity ---------------- *)
(* four sources, ids 1..4 in input order, group ids 7,3,7,3 (interleaved); 9x9 image, 3x3
   fit shape, one masked pixel; the fitter answers (x+id, y, 10*id) for the sub-model named id *)
Definition ex_fitter (k : nat) (ci : callin) : fitout :=
  mkFit (map (fun '(i, (x, y, f)) => (x + i, y, 10 * i)) (combine (ci_ids ci) (ci_init ci)))
        (Some 1) None (Some (flat_map (fun i => [i; i; i]) (ci_ids ci))) None None
        (map (fun i => [100 + i]) (ci_ids ci)).
Definition ex_srcs : list src :=
  [ mkSrc 1 7 16 16 5 0; mkSrc 2 3 48 48 6 0; mkSrc 3 7 24 16 7 0; mkSrc 4 3 56 0 8 0 ].
Definition ex_mask : option (list bool) :=
  Some (map (fun p => Nat.eqb p 20) (seq 0 81)).            (* pixel (y=2, x=2) masked *)
Definition ex_result :=
  photometry 9 9 3 3 8 ex_mask [] None None (false, false, false) 0 ex_fitter ex_srcs.

Example ex_hypotheses : Permutation (map s_id ex_srcs) (default_ids (length ex_srcs)) /\ res_err ex_result = None.
Proof. split; [apply Permutation_refl|vm_compute; reflexivity]. Qed.
(* id, group_id, group_size, x_fit, flux_fit, npixfit, flags: every row carries its own source *)
Example ex_rows :
  map (fun row => (s_id (o_src row), s_gid (o_src row), o_gsize row, o_fit row, o_npix row, o_flags row, o_ext row))
      (res_rows ex_result)
  = [ (1, 7, 2, (17, 16, 10), 8, 1, [101]); (2, 3, 2, (50, 48, 20), 9, 0, [102]);
      (3, 7, 2, (27, 16, 30), 8, 1, [103]); (4, 3, 2, (60, 0, 40), 6, 1, [104]) ].
Proof. vm_compute. reflexivity. Qed.
(* the calls: group 3 first (ids 2,4), then group 7 (ids 1,3) *)
Example ex_calls : map ci_ids (res_calls ex_result) = [[2; 4]; [1; 3]].
Proof. vm_compute. reflexivity. Qed.
(* the hypothesis of recovery_partial is satisfiable (fitter answering truth id = (id, id, id)) *)
Example ex_recovery_hypothesis : exists (fitter : nat -> callin -> fitout) (truth : Z -> Z * Z * Z),
  forall k ci, fo_par (fitter k ci) = map truth (ci_ids ci).
Proof.
  exists (fun _ ci => mkFit (map (fun i => (i, i, i)) (ci_ids ci)) None None None None None []),
         (fun i => (i, i, i)). reflexivity.
Qed.
(* ... and so is that of fixed_parameters_partial (fitter returning the initial values) *)
Example ex_fixed_hypothesis : exists (fitter : nat -> callin -> fitout),
  forall k ci j v, nth_error (ci_init ci) j = Some v ->
                   agree_fixed (true, true, false) (nth j (fo_par (fitter k ci)) (0, 0, 0)) v.
Proof.
  exists (fun _ ci => mkFit (ci_init ci) None None None None None []). intros k ci j [[x y] f] H. cbn [fo_par].
  rewrite (nth_of_nth_error _ _ _ (0, 0, 0) H). cbn. auto.
Qed.

(* SourceGrouper: a chain (0,0)-(2,0)-(4,0) at separation exactly 2 (ties join), one far source
   first in the list; scaled by 8 *)
Example ex_grouper : group_sources [(800, 0); (0, 0); (32, 0); (16, 0)] 16 = Some [1; 2; 2; 2]%nat.
Proof. vm_compute. reflexivity. Qed.
Example ex_grouper_interleaved :
  group_sources [(0, 0); (400, 0); (8, 0); (408, 0); (800, 800)] 16 = Some [1; 2; 1; 2; 3]%nat.
Proof. vm_compute. reflexivity. Qed.

Example ex_make_mask :
  make_mask [true; false; false; true] (Some [false; true; false; false])
  = (Some [false; true; true; false], true).
Proof. reflexivity. Qed.
Example ex_window : fit_data1 9 9 3 3 8 ex_mask (mkSrc 1 7 16 16 5 0)
  = inr ([(1, 1); (1, 2); (1, 3); (2, 1); (2, 3); (3, 1); (3, 2); (3, 3)], None).
Proof. vm_compute. reflexivity. Qed.
