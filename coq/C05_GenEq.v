(* C05 -- TRANSLATOR TIE.  gen/Gen_segm.v is REGENERATED from the current source text of
   photutils/segmentation/core.py on every run (harness/translate_all.py); it is not committed.
   Tied here, for ALL inputs, to C05_Model.v:
     remove_border_labels: the two slice writes border_mask[:w] = True, border_mask[n - w:] = True along one axis,
       as "is index i written" under Python slice semantics (PyGen.py_in_slice)     = in_border
     remove_border_labels: the guard  border_width >= min(shape) / 2                = the test of remove_border
     reassign_labels:      the guard  new_label < 0                                  = the test of reassign
     relabel_consecutive:  start_label <= 0,  start_label + nlabels - 1 > iinfo(dtype).max,  and the
       "already consecutive" early return                                            = the tests of relabel_consecutive
   (np.iinfo(self.data.dtype).max, self.labels[0], self.labels[-1] are declared abstract integer arguments.) *)
From Coq Require Import List ZArith QArith Bool Lia ZifyBool.
From PV Require Import lib.Cases lib.PyGen C05_Model C05_Proofs gen.Gen_segm.
Import ListNotations.
Open Scope Z_scope.

(* ---------- remove_border_labels ---------- *)
Theorem gen_border_axis_hit_eq : forall n w i, 0 <= i < n -> gen_border_axis_hit w n i = in_border n w i.
Proof.
  intros n w i Hi. unfold gen_border_axis_hit, in_border, py_in_slice, py_slice_norm. cbv zeta.
  if_split; lia.
Qed.

(* the border of width w >= 0 along an axis of length n: indices i < w or i >= n - w; width 0 marks NOTHING
   (the unrepaired border_mask[-0:] marked the whole axis) *)
Theorem gen_border_axis_hit_spec : forall n w i, 0 <= w -> 0 <= i < n ->
  (gen_border_axis_hit w n i = true <-> i < w \/ n - w <= i).
Proof. intros n w i Hw Hi. rewrite gen_border_axis_hit_eq by exact Hi. apply in_border_spec; assumption. Qed.

Theorem gen_border_axis_zero_width : forall n i, 0 <= i < n -> gen_border_axis_hit 0 n i = false.
Proof.
  intros n i Hi. destruct (gen_border_axis_hit 0 n i) eqn:E; [|reflexivity].
  apply gen_border_axis_hit_spec in E; lia.
Qed.

Theorem gen_border_width_guard_eq : forall ny nx w, gen_border_width_guard ny nx w = (Z.min ny nx <=? 2 * w).
Proof.
  intros. unfold gen_border_width_guard.
  first [ lia
        | match goal with |- context [Qle_bool ?a ?b] => destruct (Qle_bool a b) eqn:E end;
          [apply Qle_bool_true in E | apply Qle_bool_false in E]; unfold Qle, Qlt in E; cbn in E; lia ].
Qed.

(* the model's remove_border rejects exactly when the regenerated guard holds *)
Theorem gen_border_width_guard_rejects : forall w p r s,
  let s1 := snd (rd_shape s) in
  gen_border_width_guard (Z.of_nat (c_ny (st s1))) (Z.of_nat (c_nx (st s1))) w = true ->
  fst (remove_border w p r s) = ErrValue.
Proof.
  intros w p r s. unfold remove_border. destruct (rd_shape s) as [v s1]. cbn [snd]. cbv zeta.
  rewrite gen_border_width_guard_eq. intros ->. reflexivity.
Qed.

(* ---------- reassign_labels ---------- *)
Theorem gen_reassign_new_label_guard_eq : forall new, gen_reassign_new_label_guard new = (new <? 0).
Proof. intros. unfold gen_reassign_new_label_guard. lia. Qed.

Theorem gen_reassign_negative_rejected : forall ls new relabel s,
  gen_reassign_new_label_guard new = true -> fst (reassign ls new relabel s) = ErrValue.
Proof.
  intros ls new relabel s H. rewrite gen_reassign_new_label_guard_eq in H.
  unfold reassign. destruct (check_labels ls s) as [ok s1]. destruct ok; cbn [negb]; [rewrite H|]; reflexivity.
Qed.

(* ---------- relabel_consecutive ---------- *)
Theorem gen_relabel_start_guard_eq : forall start, gen_relabel_start_guard start = (start <=? 0).
Proof. intros. unfold gen_relabel_start_guard. lia. Qed.

Theorem gen_relabel_overflow_guard_eq : forall n start hi, gen_relabel_overflow_guard n start hi = (hi <? start + n - 1).
Proof. intros. unfold gen_relabel_overflow_guard. lia. Qed.

Theorem gen_relabel_already_consecutive_eq : forall n start first last,
  gen_relabel_already_consecutive n start first last = ((first =? start) && (last - first + 1 =? n)).
Proof. intros. unfold gen_relabel_already_consecutive. lia. Qed.

(* the model's relabel_consecutive branches on exactly the regenerated tests, in the order of the code *)
Theorem gen_relabel_consecutive_guards : forall start s,
  let n := asZ (fst (rd_nlabels s)) in
  let s1 := snd (rd_nlabels s) in
  n <> 0 ->
  (gen_relabel_start_guard start = true -> relabel_consecutive start s = (ErrValue, s1)) /\
  (gen_relabel_start_guard start = false -> gen_relabel_overflow_guard n start (c_hi (st s1)) = true ->
   relabel_consecutive start s = (ErrValue, s1)) /\
  (gen_relabel_start_guard start = false -> gen_relabel_overflow_guard n start (c_hi (st s1)) = false ->
   let labels := asL (fst (rd_labels s1)) in
   gen_relabel_already_consecutive n start (hd 0 labels) (last labels 0) = true ->
   relabel_consecutive start s = (Ok, snd (rd_labels s1))).
Proof.
  intros start s. unfold relabel_consecutive. destruct (rd_nlabels s) as [n s1]. cbn [fst snd]. cbv zeta.
  rewrite gen_relabel_start_guard_eq, gen_relabel_overflow_guard_eq. intro Hn.
  assert (E : (asZ n =? 0) = false) by lia. rewrite E.
  repeat split.
  - intros ->. reflexivity.
  - intros -> ->. reflexivity.
  - intros -> ->. destruct (rd_labels s1) as [lv s2]. cbn [fst snd].
    rewrite gen_relabel_already_consecutive_eq. intros ->. reflexivity.
Qed.

(* the dtype-overflow guard (fix C05-7) is exact: it fires iff the largest new label exceeds the dtype maximum *)
Theorem gen_relabel_overflow_guard_iff : forall n start hi,
  gen_relabel_overflow_guard n start hi = true <-> hi < start + n - 1.
Proof. intros. rewrite gen_relabel_overflow_guard_eq. lia. Qed.

Print Assumptions gen_border_axis_hit_eq.
Print Assumptions gen_border_axis_hit_spec.
Print Assumptions gen_border_axis_zero_width.
Print Assumptions gen_border_width_guard_eq.
Print Assumptions gen_border_width_guard_rejects.
Print Assumptions gen_reassign_new_label_guard_eq.
Print Assumptions gen_reassign_negative_rejected.
Print Assumptions gen_relabel_start_guard_eq.
Print Assumptions gen_relabel_overflow_guard_eq.
Print Assumptions gen_relabel_already_consecutive_eq.
Print Assumptions gen_relabel_consecutive_guards.
Print Assumptions gen_relabel_overflow_guard_iff.
