(* C07 -- TRANSLATOR TIE.  gen/Gen_catalog.v is REGENERATED from the current source text of
   photutils/segmentation/catalog.py (SourceCatalog) on every run (harness/translate_all.py); it is not
   committed.  The per-source index arithmetic is tied, for ALL inputs, to C07_Model.v:
     cutout_centroid: xcentroid = M[0,1] / M[0,0], ycentroid = M[1,0] / M[0,0]   = cutout_centroid
     centroid = cutout_centroid + (bbox_xmin, bbox_ymin)                          = centroid
     minval_index / maxval_index: (idx[0] + slc[0].start, idx[1] + slc[1].start)  = add_origin
     _covariance: delta = 1.0 / 12, delta2 = delta**2                             = the step / threshold of regularise
   moments[:, a, b] (one source: the moment M[a, b]) are declared abstract integer arguments; the decorators
   as_scalar / use_detcat are declared transparent for the value of one source. *)
From Coq Require Import List Arith ZArith QArith Bool Lia.
From PV Require Import lib.Cases lib.PyGen C07_Model gen.Gen_catalog.
Import ListNotations.
Open Scope Z_scope.

Definition frac (nd : Z * Z) : Q := (inject_Z (fst nd) / inject_Z (snd nd))%Q.
Lemma injZ_neq0 (z : Z) : z <> 0 -> ~ (inject_Z z == 0)%Q.
Proof. intros H E. apply H. unfold Qeq in E. cbn in E. lia. Qed.

(* ---------- cutout_centroid ---------- *)
(* x comes from M01 (first moment in x), y from M10, both over M00 *)
Theorem gen_cutout_centroid_eq : forall ny nx I l xc yc,
  cutout_centroid ny nx I l = Some (xc, yc) ->
  let '(gx, gy) := gen_cutout_centroid (moment ny nx I l 1 0) (moment ny nx I l 0 1) (m00 ny nx I l) in
  (gx == frac xc /\ gy == frac yc)%Q.
Proof.
  intros ny nx I l xc yc H. unfold cutout_centroid in H.
  destruct (m00 ny nx I l =? 0) eqn:E; [discriminate|]. injection H as <- <-.
  unfold gen_cutout_centroid, frac. cbn [fst snd]. split; reflexivity.
Qed.

Theorem gen_cutout_centroid_order : forall x y, gen_cutout_centroid_pair x y = (x, y).
Proof. intros. reflexivity. Qed.

(* ---------- centroid = cutout_centroid + bbox origin ---------- *)
Theorem gen_centroid_eq : forall ny nx I l xc yc gx gy,
  cutout_centroid ny nx I l = Some (xc, yc) -> (gx == frac xc)%Q -> (gy == frac yc)%Q ->
  match centroid ny nx I l with
  | Some (cx, cy) =>
      let '(x, y) := gen_centroid (Z.of_nat (bx0 ny nx I l)) (Z.of_nat (by0 ny nx I l)) gx gy in
      (x == frac cx /\ y == frac cy)%Q
  | None => False
  end.
Proof.
  intros ny nx I l [xn xd] [yn yd] gx gy H Ex Ey. unfold centroid. rewrite H.
  unfold cutout_centroid in H. destruct (m00 ny nx I l =? 0) eqn:E; [discriminate|].
  apply Z.eqb_neq in E. injection H as <- <- <- <-.
  unfold gen_centroid, frac in *. cbn [fst snd] in *. rewrite Ex, Ey.
  rewrite !inject_Z_plus, !inject_Z_mult. split; field; apply injZ_neq0; exact E.
Qed.

(* ---------- minval_index / maxval_index ---------- *)
(* slc = (slice(y0, y1), slice(x0, x1)) of the source's bounding box *)
Theorem gen_minval_index_eq : forall ny nx I l (i : Z * Z) y1 x1,
  gen_minval_index (fst i) (snd i) (Z.of_nat (by0 ny nx I l)) y1 (Z.of_nat (bx0 ny nx I l)) x1
  = add_origin ny nx I l i.
Proof. intros. unfold gen_minval_index, add_origin. reflexivity. Qed.
Theorem gen_maxval_index_eq : forall ny nx I l (i : Z * Z) y1 x1,
  gen_maxval_index (fst i) (snd i) (Z.of_nat (by0 ny nx I l)) y1 (Z.of_nat (bx0 ny nx I l)) x1
  = add_origin ny nx I l i.
Proof. intros. unfold gen_maxval_index, add_origin. reflexivity. Qed.

(* restated: the image index of the minimum is its cutout index shifted by the bounding-box origin *)
Theorem gen_minval_index_is_model : forall ny nx I l y1 x1,
  minval_index ny nx I l =
  option_map (fun i => gen_minval_index (fst i) (snd i) (Z.of_nat (by0 ny nx I l)) y1 (Z.of_nat (bx0 ny nx I l)) x1)
             (cutout_minval_index ny nx I l).
Proof.
  intros. unfold minval_index. destruct (cutout_minval_index ny nx I l); [|reflexivity].
  cbn [option_map]. rewrite gen_minval_index_eq. reflexivity.
Qed.

(* ---------- the 1/12 regularisation constants ---------- *)
Theorem gen_covariance_delta_eq : (fst gen_covariance_delta == 1 # 12)%Q /\ (snd gen_covariance_delta == 1 # 144)%Q.
Proof. unfold gen_covariance_delta. cbn. split; reflexivity. Qed.

(* the model works with numerators over 12 * d2 (d2 = M00^2): adding d2 to a numerator is adding delta to the
   matrix entry, and the test det < d2^2 on numerators is det < delta2 on the entries *)
Theorem gen_covariance_delta_is_regularise_step : forall (d2 a : Z), d2 <> 0 ->
  (inject_Z (a + d2) / inject_Z (12 * d2) == inject_Z a / inject_Z (12 * d2) + fst gen_covariance_delta)%Q /\
  (inject_Z (d2 * d2) / (inject_Z (12 * d2) * inject_Z (12 * d2)) == snd gen_covariance_delta)%Q.
Proof.
  intros d2 a H. destruct gen_covariance_delta_eq as [E1 E2]. rewrite E1, E2.
  rewrite !inject_Z_plus, !inject_Z_mult. change (inject_Z 12) with 12%Q.
  split; field; apply injZ_neq0; exact H.
Qed.

Print Assumptions injZ_neq0.
Print Assumptions gen_cutout_centroid_eq.
Print Assumptions gen_cutout_centroid_order.
Print Assumptions gen_centroid_eq.
Print Assumptions gen_minval_index_eq.
Print Assumptions gen_maxval_index_eq.
Print Assumptions gen_minval_index_is_model.
Print Assumptions gen_covariance_delta_eq.
Print Assumptions gen_covariance_delta_is_regularise_step.
