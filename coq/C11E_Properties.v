(* C11E — stretch of C11: the estimator classes of photutils.background.core, in exact arithmetic.
   Property theorems only; each is closed by [exact] of a lemma of C11E_Proofs.

   Vocabulary (C11E_Model.v).  A sample is a list of rationals [Q] = the sigma-clipped unmasked
   pixels of one box (the correspondence feeds dyadic rationals).  Background estimators:
   [est_mean], [est_median], [est_mode mf nf] (= mf*median - nf*mean), [est_mmm] (= est_mode 3 2),
   [est_sext] (SExtractorBackground with its std == 0 branch and its 0.3 switch, decided on squares),
   [est_biweight c] (biweight_location with M = None: the MAD == 0 branch, weights (1-u^2)^2 cut at
   |u| >= 1, u = (x - median)/(c*MAD)).  Squared RMS statistics: [rms2_std] (population variance),
   [rms2_madstd k] (= (k*MAD)^2), [rms2_biweight c] (biweight midvariance = biweight_scale^2).
   [bkg_class] / [rms_class] enumerate the classes, [est_of_class] / [rms2_of_class] dispatch,
   [class_equivariant B] is True except for a ModeEstimatorBackground, where it says
   median_factor - mean_factor == 1.  [qminl] / [qmaxl] are min / max of a list (C11_Model),
   [allq c l]: every element of l is == c, [arel a b u v]: v == a*u + b (C11_Proofs).
   [estZ B], [rms2Z R]: the same on the scaled-integer samples of C11_Model; [rmsZ rt R] = rt o rms2Z R
   where [rt : Q -> Q] stands for the square root; [clip_of o] = no clip / the SigmaClip model of C11S.

   What is NOT claimed: these are theorems about exact arithmetic; the float code is tied to the
   model by the correspondence of harness/c11e.py (2^-40 of the scale on a dyadic lattice). *)
From Coq Require Import List Arith ZArith QArith Qabs Bool.
From PV Require Import lib.Cases C11_Model C11_Proofs C11S_Model C11S_Proofs C11E_Model C11E_Proofs.
Import ListNotations.
Open Scope Q_scope.

(* ================================================================== *)
(* 1. MeanBackground                                                    *)
(* ================================================================== *)
Theorem est_affine_mean : forall (a b : Q) (l : list Q),
  l <> [] -> est_mean (map (fun v => a * v + b) l) == a * est_mean l + b.
Proof. exact meanQ_map_lemma. Qed.
Print Assumptions est_affine_mean.

Theorem est_constant_mean : forall (c : Q) (l : list Q), l <> [] -> allq c l -> est_mean l == c.
Proof. exact est_mean_const. Qed.
Print Assumptions est_constant_mean.

Theorem est_within_hull_mean : forall l : list Q, l <> [] -> qminl l <= est_mean l <= qmaxl l.
Proof. exact est_mean_in_hull. Qed.
Print Assumptions est_within_hull_mean.

(* ================================================================== *)
(* 2. MedianBackground                                                  *)
(* ================================================================== *)
Theorem est_affine_median : forall (a b : Q) (l : list Q),
  0 < a -> l <> [] -> est_median (map (fun v => a * v + b) l) == a * est_median l + b.
Proof. exact qmedian_map_lemma. Qed.
Print Assumptions est_affine_median.

Theorem est_constant_median : forall (c : Q) (l : list Q), l <> [] -> allq c l -> est_median l == c.
Proof. exact est_median_const. Qed.
Print Assumptions est_constant_median.

Theorem est_within_hull_median : forall l : list Q, l <> [] -> qminl l <= est_median l <= qmaxl l.
Proof. exact est_median_in_hull. Qed.
Print Assumptions est_within_hull_median.

(* ================================================================== *)
(* 3. ModeEstimatorBackground(median_factor, mean_factor)               *)
(* ================================================================== *)
(* for ANY factors the scale goes through and the shift is multiplied by mf - nf ... *)
Theorem est_affine_mode_general : forall (mf nf a b : Q) (l : list Q),
  0 < a -> l <> [] ->
  est_mode mf nf (map (fun v => a * v + b) l) == a * est_mode mf nf l + (mf - nf) * b.
Proof.
  exact (fun mf nf a b l Ha Hn => est_mode_arel_gen a b Ha l _ (Forall2_map_arel a b l) Hn mf nf).
Qed.
Print Assumptions est_affine_mode_general.

(* ... so the estimator is shift-equivariant exactly when mf - nf = 1 (the defaults 3, 2) *)
Theorem est_affine_mode : forall (mf nf a b : Q) (l : list Q),
  mf - nf == 1 -> 0 < a -> l <> [] ->
  est_mode mf nf (map (fun v => a * v + b) l) == a * est_mode mf nf l + b.
Proof. exact (fun mf nf a b l => est_of_class_map (BMode mf nf) a b l). Qed.
Print Assumptions est_affine_mode.

Theorem est_mode_not_shift_equivariant_otherwise :
  ~ (est_mode 3 1 (map (fun v => 1 * v + 1) [0]) == 1 * est_mode 3 1 [0] + 1).
Proof. exact est_mode_not_equivariant. Qed.
Print Assumptions est_mode_not_shift_equivariant_otherwise.

Theorem est_constant_mode : forall (mf nf c : Q) (l : list Q),
  mf - nf == 1 -> l <> [] -> allq c l -> est_mode mf nf l == c.
Proof. exact (fun mf nf c l H Hn Hc => est_mode_const c l Hn Hc mf nf H). Qed.
Print Assumptions est_constant_mode.

(* ================================================================== *)
(* 4. MMMBackground = ModeEstimatorBackground(3, 2)                     *)
(* ================================================================== *)
Theorem est_affine_mmm : forall (a b : Q) (l : list Q),
  0 < a -> l <> [] -> est_mmm (map (fun v => a * v + b) l) == a * est_mmm l + b.
Proof. exact (fun a b l => est_of_class_map BMMM a b l I). Qed.
Print Assumptions est_affine_mmm.

Theorem est_constant_mmm : forall (c : Q) (l : list Q), l <> [] -> allq c l -> est_mmm l == c.
Proof. exact est_mmm_const. Qed.
Print Assumptions est_constant_mmm.

(* the mode estimators EXTRAPOLATE: 3*median - 2*mean of [0; 0; 1] is -2/3, below the minimum *)
Theorem est_mmm_not_within_hull : est_mmm [0; 0; 1] < qminl [0; 0; 1].
Proof. exact est_mmm_outside_hull. Qed.
Print Assumptions est_mmm_not_within_hull.

(* ================================================================== *)
(* 5. SExtractorBackground                                              *)
(* ================================================================== *)
(* the switch compares the scale-free ratio |mean - median|/std, the std == 0 test is scale-free *)
Theorem est_affine_sextractor : forall (a b : Q) (l : list Q),
  0 < a -> l <> [] -> est_sext (map (fun v => a * v + b) l) == a * est_sext l + b.
Proof. exact (fun a b l => est_of_class_map BSExtractor a b l I). Qed.
Print Assumptions est_affine_sextractor.

(* a constant sample goes through the `_std == 0` branch and gives the mean = the constant *)
Theorem est_constant_sextractor : forall (c : Q) (l : list Q), l <> [] -> allq c l ->
  est_sext l == c /\ Qeq_bool (varQ l) 0 = true.
Proof. exact est_sext_const. Qed.
Print Assumptions est_constant_sextractor.

(* twelve 0s and a 1: std != 0, |mean - median|/std < 0.3, and 2.5*median - 1.5*mean = -3/26 < min *)
Theorem est_sextractor_not_within_hull :
  est_sext sext_witness < qminl sext_witness /\
  Qeq_bool (varQ sext_witness) 0 = false /\
  Qle_bool ((9 # 100) * varQ sext_witness)
           ((meanQ sext_witness - qmedian sext_witness) * (meanQ sext_witness - qmedian sext_witness)) = false.
Proof. exact est_sext_outside_hull. Qed.
Print Assumptions est_sextractor_not_within_hull.

(* no square root is lost: whenever std = r > 0 exists in Q, the model's test on squares is the
   code's test |mean - median| / std >= 0.3 *)
Theorem sext_switch_is_ratio_test : forall mean med var r : Q,
  0 < r -> r * r == var ->
  (Qle_bool ((9 # 100) * var) ((mean - med) * (mean - med)) = true <->
   (3 # 10) <= Qabs (mean - med) / r).
Proof. exact sext_switch_spec. Qed.
Print Assumptions sext_switch_is_ratio_test.

(* ================================================================== *)
(* 6. BiweightLocationBackground(c)                                     *)
(* ================================================================== *)
(* u = (x - M)/(c*MAD) is affine-invariant, so are the weights and the |u| >= 1 cut; for every c *)
Theorem est_affine_biweight : forall (c a b : Q) (l : list Q),
  0 < a -> l <> [] -> est_biweight c (map (fun v => a * v + b) l) == a * est_biweight c l + b.
Proof. exact (fun c a b l => est_of_class_map (BBiweight c) a b l I). Qed.
Print Assumptions est_affine_biweight.

(* a constant sample goes through the `mad == 0` branch and gives the median = the constant *)
Theorem est_constant_biweight : forall (cc c : Q) (l : list Q), l <> [] -> allq c l ->
  est_biweight cc l == c /\ Qeq_bool (madQ l) 0 = true.
Proof. exact (fun cc c l Hn Hc => est_biweight_const c l Hn Hc cc). Qed.
Print Assumptions est_constant_biweight.

(* a weighted mean with non-negative weights (or the median): within [min, max], for every c *)
Theorem est_within_hull_biweight : forall (c : Q) (l : list Q),
  l <> [] -> qminl l <= est_biweight c l <= qmaxl l.
Proof. exact est_biweight_in_hull. Qed.
Print Assumptions est_within_hull_biweight.

(* for c > 1 (default 6) the quotient sum(d*w)/sum(w) of the code is a number: MAD = 0 returns the
   median, otherwise some value lies within one MAD of the median and has a positive weight.
   (c = 1 is not enough: [ex_biweight_nan] below.) *)
Theorem biweight_location_defined : forall (c : Q) (l : list Q),
  1 < c -> l <> [] -> biweight_defined c l = true.
Proof. exact biweight_defined_lemma. Qed.
Print Assumptions biweight_location_defined.

Theorem biweight_defined_affine_invariant : forall (c a b : Q) (l : list Q),
  0 < a -> l <> [] -> biweight_defined c (map (fun v => a * v + b) l) = biweight_defined c l.
Proof.
  exact (fun c a b l Ha Hn => biweight_defined_arel a b Ha l _ (Forall2_map_arel a b l) Hn c).
Qed.
Print Assumptions biweight_defined_affine_invariant.

(* `np.abs(u) >= 1` vs `> 1`: at |u| = 1 the weight (1 - u^2)^2 is 0, so the estimator with the strict
   cut ([est_biweight_with bw_w_strict]) is the same function — a mutation of that comparison is
   not observable on any data *)
Theorem biweight_location_cut_boundary_immaterial : forall (c : Q) (l : list Q),
  est_biweight_with bw_w_strict c l == est_biweight c l.
Proof. exact est_biweight_cut_boundary. Qed.
Print Assumptions biweight_location_cut_boundary_immaterial.

(* ================================================================== *)
(* 7. all background classes at once, on related samples (also: compatible with ==)   *)
(* ================================================================== *)
Theorem est_affine_all_classes : forall (B : bkg_class) (a b : Q) (l l' : list Q),
  class_equivariant B -> 0 < a -> Forall2 (arel a b) l l' -> l <> [] ->
  est_of_class B l' == a * est_of_class B l + b.
Proof. exact (fun B a b l l' HB Ha Hl Hn => est_of_class_arel a b Ha l l' Hl Hn B HB). Qed.
Print Assumptions est_affine_all_classes.

Theorem est_constant_all_classes : forall (B : bkg_class) (c : Q) (l : list Q),
  class_equivariant B -> l <> [] -> allq c l -> est_of_class B l == c.
Proof. exact (fun B c l HB Hn Hc => est_of_class_const c l Hn Hc B HB). Qed.
Print Assumptions est_constant_all_classes.

(* ================================================================== *)
(* 8. the squared RMS statistics                                        *)
(* ================================================================== *)
(* StdBackgroundRMS^2 *)
Theorem rms2_affine_std : forall (a b : Q) (l : list Q),
  l <> [] -> rms2_std (map (fun v => a * v + b) l) == a * a * rms2_std l.
Proof. exact varQ_map_lemma. Qed.
Print Assumptions rms2_affine_std.
Theorem rms2_constant_std : forall (c : Q) (l : list Q), l <> [] -> allq c l -> rms2_std l == 0.
Proof. exact varQ_const. Qed.
Print Assumptions rms2_constant_std.
Theorem rms2_nonneg_std : forall l : list Q, 0 <= rms2_std l.
Proof. exact varQ_nonneg. Qed.
Print Assumptions rms2_nonneg_std.

(* MADStdBackgroundRMS^2 = (k * MAD)^2, k the constant 1.482602218505602 (any k) *)
Theorem rms2_affine_madstd : forall (kf a b : Q) (l : list Q),
  0 < a -> l <> [] -> rms2_madstd kf (map (fun v => a * v + b) l) == a * a * rms2_madstd kf l.
Proof. exact (fun kf a b l => rms2_of_class_map (RMADStd kf) a b l). Qed.
Print Assumptions rms2_affine_madstd.
Theorem rms2_constant_madstd : forall (kf c : Q) (l : list Q),
  l <> [] -> allq c l -> rms2_madstd kf l == 0.
Proof. exact (fun kf c l => rms2_of_class_const (RMADStd kf) c l). Qed.
Print Assumptions rms2_constant_madstd.
Theorem rms2_nonneg_madstd : forall (kf : Q) (l : list Q), 0 <= rms2_madstd kf l.
Proof. exact (fun kf l => rms2_of_class_nonneg (RMADStd kf) l). Qed.
Print Assumptions rms2_nonneg_madstd.

(* the MAD itself: scales by a, ignores b, 0 on constants, >= 0 *)
Theorem mad_affine : forall (a b : Q) (l : list Q),
  0 < a -> l <> [] -> madQ (map (fun v => a * v + b) l) == a * madQ l.
Proof. exact (fun a b l Ha Hn => madQ_arel a b l _ Ha (Forall2_map_arel a b l) Hn). Qed.
Print Assumptions mad_affine.
Theorem mad_nonneg : forall l : list Q, l <> [] -> 0 <= madQ l.
Proof. exact madQ_nonneg. Qed.
Print Assumptions mad_nonneg.

(* BiweightScaleBackgroundRMS^2 = biweight midvariance, every c *)
Theorem rms2_affine_biweight : forall (c a b : Q) (l : list Q),
  0 < a -> l <> [] -> rms2_biweight c (map (fun v => a * v + b) l) == a * a * rms2_biweight c l.
Proof. exact (fun c a b l => rms2_of_class_map (RBiweight c) a b l). Qed.
Print Assumptions rms2_affine_biweight.
(* through the `mad == 0` branch (returns mad**2) *)
Theorem rms2_constant_biweight : forall (cc c : Q) (l : list Q),
  l <> [] -> allq c l -> rms2_biweight cc l == 0.
Proof. exact (fun cc c l => rms2_of_class_const (RBiweight cc) c l). Qed.
Print Assumptions rms2_constant_biweight.
Theorem rms2_nonneg_biweight : forall (c : Q) (l : list Q), 0 <= rms2_biweight c l.
Proof. exact (fun c l => rms2_of_class_nonneg (RBiweight c) l). Qed.
Print Assumptions rms2_nonneg_biweight.
(* whether the denominator f2 of the code vanishes does not depend on scale and shift *)
Theorem midvariance_defined_affine_invariant : forall (c a b : Q) (l : list Q),
  0 < a -> l <> [] -> midvariance_defined c (map (fun v => a * v + b) l) = midvariance_defined c l.
Proof.
  exact (fun c a b l Ha Hn => midvariance_defined_arel a b Ha l _ (Forall2_map_arel a b l) Hn c).
Qed.
Print Assumptions midvariance_defined_affine_invariant.

(* `np.abs(u) < 1` vs `<= 1` in biweight_midvariance: both summands vanish at |u| = 1 *)
Theorem biweight_scale_cut_boundary_immaterial : forall M s x : Q,
  bs_t1_incl M s x == bs_t1 M s x /\ bs_t2_incl M s x == bs_t2 M s x.
Proof. exact bs_terms_cut_boundary. Qed.
Print Assumptions biweight_scale_cut_boundary_immaterial.

Theorem rms2_affine_all_classes : forall (R : rms_class) (a b : Q) (l l' : list Q),
  0 < a -> Forall2 (arel a b) l l' -> l <> [] -> rms2_of_class R l' == a * a * rms2_of_class R l.
Proof. exact (fun R a b l l' Ha Hl Hn => rms2_of_class_arel a b Ha l l' Hl Hn R). Qed.
Print Assumptions rms2_affine_all_classes.

(* ================================================================== *)
(* 9. the premises of C11's partial theorems, per class                 *)
(* ================================================================== *)
(* est premise of shift_scale_equivariant_partial and est premise of constant_image_exact *)
Theorem estimator_classes_satisfy_C11_est_premises : forall B : bkg_class, class_equivariant B ->
  (forall (k c : Z) (l : list Z), (0 < k)%Z -> l <> [] ->
     estZ B (map (fun v => (k * v + c)%Z) l) == inject_Z k * estZ B l + inject_Z c) /\
  (forall (c : Z) (l : list Z), l <> [] -> (forall v, In v l -> v = c) -> estZ B l == inject_Z c).
Proof.
  exact (fun B HB => conj (fun k c l => estZ_equivariant B k c l HB) (fun c l => estZ_const B c l HB)).
Qed.
Print Assumptions estimator_classes_satisfy_C11_est_premises.

(* the RMS premise of shift_scale_equivariant_partial is stated for the RMS, which scales by k.
   Over Q only the SQUARED statistic exists in general; it scales by k^2 and is 0 on constants: *)
Theorem squared_rms_classes_scale_by_square : forall R : rms_class,
  (forall (k c : Z) (l : list Z), (0 < k)%Z -> l <> [] ->
     rms2Z R (map (fun v => (k * v + c)%Z) l) == inject_Z k * inject_Z k * rms2Z R l) /\
  (forall (c : Z) (l : list Z), l <> [] -> (forall v, In v l -> v = c) -> rms2Z R l == 0) /\
  (forall l : list Z, 0 <= rms2Z R l).
Proof.
  exact (fun R => conj (rms2Z_equivariant R)
                 (conj (rms2Z_const R) (fun l => rms2_of_class_nonneg R (map inject_Z l)))).
Qed.
Print Assumptions squared_rms_classes_scale_by_square.

(* ... hence the RMS premises hold for rt o rms2 for every function rt that behaves like the square
   root: compatible with ==, rt(k^2 x) = k rt(x) for k > 0, x >= 0 (then also rt 0 = 0) *)
Theorem rms_classes_satisfy_C11_rms_premises : forall (R : rms_class) (rt : Q -> Q),
  root_homogeneous rt ->
  (forall (k c : Z) (l : list Z), (0 < k)%Z -> l <> [] ->
     rmsZ rt R (map (fun v => (k * v + c)%Z) l) == inject_Z k * rmsZ rt R l) /\
  (forall (c : Z) (l : list Z), l <> [] -> (forall v, In v l -> v = c) -> rmsZ rt R l == 0).
Proof.
  exact (fun R rt Hrt => conj (fun k c l => rmsZ_equivariant rt R k c l Hrt)
                              (fun c l => rmsZ_const rt R c l (root_homogeneous_zero rt Hrt))).
Qed.
Print Assumptions rms_classes_satisfy_C11_rms_premises.

(* the names used below ARE the conclusions of C11's two theorems *)
Theorem equivariance_conclusion_is_C11s : forall ny nx by0 bx0 : nat,
  (0 < ny)%nat -> (0 < nx)%nat -> (0 < by0)%nat -> (0 < bx0)%nat ->
  forall (data : img (option Z)) (mask cov : img bool) (p : Q) (est rms : list Z -> Q)
         (clip : list Z -> list Z) (idw : img (option Q) -> nat -> nat -> Q) (median : list Q -> Q)
         (fy fx : nat) (fthr : option Q),
  (0 < fy)%nat -> (0 < fx)%nat ->
  forall (fill : Q) (do_clip : bool) (interp : img Q -> nat -> nat -> Q) (k c : Z),
  (0 < k)%Z ->
  (forall l : list Z,
     clip (map (fun v : Z => (k * v + c)%Z) l) = map (fun v : Z => (k * v + c)%Z) (clip l)) ->
  (forall l : list Z,
     l <> nil -> est (map (fun v : Z => (k * v + c)%Z) l) == inject_Z k * est l + inject_Z c) ->
  (forall l : list Z, l <> nil -> rms (map (fun v : Z => (k * v + c)%Z) l) == inject_Z k * rms l) ->
  idw_equivariant idw -> median_equivariant median -> interp_equivariant interp ->
  equivariance_conclusion ny nx by0 bx0 data mask cov p est rms clip idw median fy fx fthr fill do_clip
                          interp k c.
Proof. exact equivariance_conclusion_is_C11. Qed.
Print Assumptions equivariance_conclusion_is_C11s.

(* ------------------------------------------------------------------ *)
(* constant_image_exact for EVERY background class x EVERY RMS class x {no clip, sigma clip}, with the
   exact window median: stated in full.  Left of C11's premises: sqrt 0 = 0 ([rt] == 0 at 0). *)
Theorem constant_image_exact_estimator_classes :
  forall (B : bkg_class), class_equivariant B ->
  forall (R : rms_class) (rt : Q -> Q) (o : option params) (ny nx by0 bx0 : nat),
  (0 < ny)%nat -> (0 < nx)%nat -> (0 < by0)%nat -> (0 < bx0)%nat ->
  forall (data : img (option Z)) (mask cov : img bool) (p : Q)
         (idw : img (option Q) -> nat -> nat -> Q) (fy fx : nat) (fthr : option Q),
  (0 < fy)%nat -> (0 < fx)%nat ->
  forall (fill : Q) (do_clip : bool) (interp : img Q -> nat -> nat -> Q) (c : Z),
  (forall x : Q, x == 0 -> rt x == 0) ->
  (forall y x : nat, (y < ny)%nat -> (x < nx)%nat ->
     pix data mask cov y x = None \/ pix data mask cov y x = Some c) ->
  forall (np : img nat) (nm : img bool) (bm rm b r : img Q),
  background2d ny nx by0 bx0 data mask cov p (estZ B) (rmsZ rt R) (clip_of o) idw qmedian fy fx fthr
               fill do_clip interp = Maps np nm bm rm b r ->
  (forall i j : nat, (i < nmy ny (clipbox by0 ny))%nat -> (j < nmx nx (clipbox bx0 nx))%nat ->
     get2 0 bm i j == inject_Z c /\ get2 0 rm i j == 0) /\
  (forall (y x : nat) (d : Q), (y < ny)%nat -> (x < nx)%nat ->
     if get2 false cov y x
     then get2 d b y x = fill /\ get2 d r y x = fill
     else get2 d b y x == inject_Z c /\ get2 d r y x == 0).
Proof. exact b2d_constant_class. Qed.
Print Assumptions constant_image_exact_estimator_classes.

(* the same per class ([constant_image_conclusion] = the conclusion above) *)
Definition constant_image_exact_for (B : bkg_class) : Prop :=
  forall (R : rms_class) (rt : Q -> Q) (o : option params) (ny nx by0 bx0 : nat),
  (0 < ny)%nat -> (0 < nx)%nat -> (0 < by0)%nat -> (0 < bx0)%nat ->
  forall (data : img (option Z)) (mask cov : img bool) (p : Q)
         (idw : img (option Q) -> nat -> nat -> Q) (fy fx : nat) (fthr : option Q),
  (0 < fy)%nat -> (0 < fx)%nat ->
  forall (fill : Q) (do_clip : bool) (interp : img Q -> nat -> nat -> Q) (c : Z),
  (forall x : Q, x == 0 -> rt x == 0) ->
  (forall y x : nat, (y < ny)%nat -> (x < nx)%nat ->
     pix data mask cov y x = None \/ pix data mask cov y x = Some c) ->
  forall (np : img nat) (nm : img bool) (bm rm b r : img Q),
  background2d ny nx by0 bx0 data mask cov p (estZ B) (rmsZ rt R) (clip_of o) idw qmedian fy fx fthr
               fill do_clip interp = Maps np nm bm rm b r ->
  constant_image_conclusion ny nx by0 bx0 cov fill c bm rm b r.

Theorem constant_image_exact_mean : constant_image_exact_for BMean.
Proof. exact (b2d_constant_class BMean I). Qed.
Print Assumptions constant_image_exact_mean.
Theorem constant_image_exact_median : constant_image_exact_for BMedian.
Proof. exact (b2d_constant_class BMedian I). Qed.
Print Assumptions constant_image_exact_median.
Theorem constant_image_exact_mode : forall mf nf : Q, mf - nf == 1 -> constant_image_exact_for (BMode mf nf).
Proof. exact (fun mf nf => b2d_constant_class (BMode mf nf)). Qed.
Print Assumptions constant_image_exact_mode.
Theorem constant_image_exact_mmm : constant_image_exact_for BMMM.
Proof. exact (b2d_constant_class BMMM I). Qed.
Print Assumptions constant_image_exact_mmm.
Theorem constant_image_exact_sextractor : constant_image_exact_for BSExtractor.
Proof. exact (b2d_constant_class BSExtractor I). Qed.
Print Assumptions constant_image_exact_sextractor.
Theorem constant_image_exact_biweight : forall c : Q, constant_image_exact_for (BBiweight c).
Proof. exact (fun c => b2d_constant_class (BBiweight c) I). Qed.
Print Assumptions constant_image_exact_biweight.

(* ------------------------------------------------------------------ *)
(* shift_scale_equivariant for EVERY background class x EVERY RMS class x {no clip, sigma clip}: C11's
   shift_scale_equivariant_partial with the clip, estimator and RMS premises DISCHARGED, stated in
   full.  Still partial: the root is a parameter with the two properties of sqrt that are used
   ([root_homogeneous]), and the premises on the library numerics (Shepard fill, window median,
   upscaling) remain. *)
Theorem shift_scale_equivariant_estimator_classes :
  forall (B : bkg_class), class_equivariant B ->
  forall (R : rms_class) (rt : Q -> Q) (o : option params) (ny nx by0 bx0 : nat),
  (0 < ny)%nat -> (0 < nx)%nat -> (0 < by0)%nat -> (0 < bx0)%nat ->
  forall (data : img (option Z)) (mask cov : img bool) (p : Q)
         (idw : img (option Q) -> nat -> nat -> Q) (median : list Q -> Q) (fy fx : nat) (fthr : option Q),
  (0 < fy)%nat -> (0 < fx)%nat ->
  forall (fill : Q) (do_clip : bool) (interp : img Q -> nat -> nat -> Q) (k c : Z),
  (0 < k)%Z -> root_homogeneous rt ->
  idw_equivariant idw -> median_equivariant median -> interp_equivariant interp ->
  (background2d ny nx by0 bx0 data mask cov p (estZ B) (rmsZ rt R) (clip_of o) idw median fy fx fthr fill
     do_clip interp = AllExcluded <->
   background2d ny nx by0 bx0 (map (map (option_map (fun v : Z => (k * v + c)%Z))) data) mask cov p (estZ B)
     (rmsZ rt R) (clip_of o) idw median fy fx (option_map (fun t : Q => inject_Z k * t + inject_Z c) fthr) fill
     do_clip interp = AllExcluded) /\
  (forall (np : img nat) (nm : img bool) (bm rm b r : img Q),
   background2d ny nx by0 bx0 data mask cov p (estZ B) (rmsZ rt R) (clip_of o) idw median fy fx fthr fill
     do_clip interp = Maps np nm bm rm b r ->
   exists bm' rm' b' r' : img Q,
     background2d ny nx by0 bx0 (map (map (option_map (fun v : Z => (k * v + c)%Z))) data) mask cov p
       (estZ B) (rmsZ rt R) (clip_of o) idw median fy fx
       (option_map (fun t : Q => inject_Z k * t + inject_Z c) fthr) fill do_clip interp =
       Maps np nm bm' rm' b' r' /\
     irel (arel (inject_Z k) (inject_Z c)) bm bm' /\
     irel (arel (inject_Z k) 0) rm rm' /\
     (forall (y x : nat) (d : Q), (y < ny)%nat -> (x < nx)%nat ->
        if get2 false cov y x
        then (get2 d b y x = fill /\ get2 d b' y x = fill) /\ get2 d r y x = fill /\ get2 d r' y x = fill
        else arel (inject_Z k) (inject_Z c) (get2 d b y x) (get2 d b' y x) /\
             arel (inject_Z k) 0 (get2 d r y x) (get2 d r' y x))).
Proof. exact b2d_equivariant_class. Qed.
Print Assumptions shift_scale_equivariant_estimator_classes.

(* the same per class ([equivariance_conclusion] = the conclusion above = C11's) *)
Definition shift_scale_equivariant_for (B : bkg_class) : Prop :=
  forall (R : rms_class) (rt : Q -> Q) (o : option params) (ny nx by0 bx0 : nat),
  (0 < ny)%nat -> (0 < nx)%nat -> (0 < by0)%nat -> (0 < bx0)%nat ->
  forall (data : img (option Z)) (mask cov : img bool) (p : Q)
         (idw : img (option Q) -> nat -> nat -> Q) (median : list Q -> Q) (fy fx : nat) (fthr : option Q),
  (0 < fy)%nat -> (0 < fx)%nat ->
  forall (fill : Q) (do_clip : bool) (interp : img Q -> nat -> nat -> Q) (k c : Z),
  (0 < k)%Z -> root_homogeneous rt ->
  idw_equivariant idw -> median_equivariant median -> interp_equivariant interp ->
  equivariance_conclusion ny nx by0 bx0 data mask cov p (estZ B) (rmsZ rt R) (clip_of o) idw median fy fx
                          fthr fill do_clip interp k c.

Theorem shift_scale_equivariant_sigma_clip_mean : shift_scale_equivariant_for BMean.
Proof. exact (b2d_equivariant_class BMean I). Qed.
Print Assumptions shift_scale_equivariant_sigma_clip_mean.
Theorem shift_scale_equivariant_sigma_clip_median : shift_scale_equivariant_for BMedian.
Proof. exact (b2d_equivariant_class BMedian I). Qed.
Print Assumptions shift_scale_equivariant_sigma_clip_median.
Theorem shift_scale_equivariant_sigma_clip_mode : forall mf nf : Q,
  mf - nf == 1 -> shift_scale_equivariant_for (BMode mf nf).
Proof. exact (fun mf nf => b2d_equivariant_class (BMode mf nf)). Qed.
Print Assumptions shift_scale_equivariant_sigma_clip_mode.
Theorem shift_scale_equivariant_sigma_clip_mmm : shift_scale_equivariant_for BMMM.
Proof. exact (b2d_equivariant_class BMMM I). Qed.
Print Assumptions shift_scale_equivariant_sigma_clip_mmm.
Theorem shift_scale_equivariant_sigma_clip_sextractor : shift_scale_equivariant_for BSExtractor.
Proof. exact (b2d_equivariant_class BSExtractor I). Qed.
Print Assumptions shift_scale_equivariant_sigma_clip_sextractor.
Theorem shift_scale_equivariant_sigma_clip_biweight : forall c : Q, shift_scale_equivariant_for (BBiweight c).
Proof. exact (fun c => b2d_equivariant_class (BBiweight c) I). Qed.
Print Assumptions shift_scale_equivariant_sigma_clip_biweight.

(* pure shift (k = 1): "adding c adds c to the background and leaves the RMS" for every class, with
   nothing asked of the root but that it is a function of the value *)
Theorem shift_equivariant_estimator_classes :
  forall (B : bkg_class), class_equivariant B ->
  forall (R : rms_class) (rt : Q -> Q) (o : option params) (ny nx by0 bx0 : nat),
  (0 < ny)%nat -> (0 < nx)%nat -> (0 < by0)%nat -> (0 < bx0)%nat ->
  forall (data : img (option Z)) (mask cov : img bool) (p : Q)
         (idw : img (option Q) -> nat -> nat -> Q) (median : list Q -> Q) (fy fx : nat) (fthr : option Q),
  (0 < fy)%nat -> (0 < fx)%nat ->
  forall (fill : Q) (do_clip : bool) (interp : img Q -> nat -> nat -> Q) (c : Z),
  root_compatible rt ->
  idw_equivariant idw -> median_equivariant median -> interp_equivariant interp ->
  equivariance_conclusion ny nx by0 bx0 data mask cov p (estZ B) (rmsZ rt R) (clip_of o) idw median fy fx
                          fthr fill do_clip interp 1 c.
Proof. exact b2d_shift_class. Qed.
Print Assumptions shift_equivariant_estimator_classes.

(* ================================================================== *)
(* non-vacuity: concrete values of the model (each list is also a landmark of harness/c11e.py) *)
(* ================================================================== *)
(* the three branches of SExtractorBackground *)
Example ex_sext_branches :
  Qred (est_sext [5; 5; 5]) = 5 /\                                  (* std == 0: the mean *)
  Qred (est_sext [0; 0; 1]) = 0 /\                                  (* ratio >= 0.3: the median *)
  Qred (est_sext sext_witness) = (-3 # 26) /\                       (* 2.5*median - 1.5*mean *)
  Qred (est_sext [-1; 0; 1]) = 0.
Proof. vm_compute. repeat split; reflexivity. Qed.

(* mode / MMM *)
Example ex_mode : Qred (est_mmm [0; 0; 1]) = (-2 # 3) /\ Qred (est_mode (5 # 2) (3 # 2) [1; 2; 6]) = (1 # 2).
Proof. vm_compute. split; reflexivity. Qed.

(* biweight location: MAD = 0 with std != 0 returns the median; a regular case; 4*v + 3 *)
Example ex_biweight :
  Qred (est_biweight 6 [0; 0; 0; 5]) = 0 /\ Qeq_bool (madQ [0; 0; 0; 5]) 0 = true /\
  Qred (madQ [1; 2; 3; 4; 100]) = 1 /\
  Qred (est_biweight 6 [1; 2; 3; 4; 100]) = (6131 # 2385) /\
  Qred (est_biweight 6 [7; 11; 15; 19; 403]) = (31679 # 2385).    (* = 4 * (6131 # 2385) + 3 *)
Proof. vm_compute. repeat split; reflexivity. Qed.

(* c = 1: both values of [0; 2] sit exactly at |u| = 1, every weight is 0, the code returns NaN;
   so the premise 1 < c of biweight_location_defined cannot be weakened to 1 <= c *)
Example ex_biweight_nan : biweight_defined 1 [0; 2] = false /\ biweight_defined (3 # 2) [0; 2] = true.
Proof. vm_compute. split; reflexivity. Qed.

(* squared RMS statistics *)
Example ex_rms2 :
  Qred (rms2_std [1; 2; 3; 4; 100]) = 1522 /\
  Qred (rms2_madstd 2 [1; 2; 3; 4; 100]) = 4 /\
  Qred (rms2_biweight 9 [0; 0; 0; 5]) = 0 /\
  Qred (rms2_biweight 9 [1; 2; 3; 4; 100]) = (10302415 # 5077803) /\
  midvariance_defined 9 [1; 2; 3; 4; 100] = true.
Proof. vm_compute. repeat split; reflexivity. Qed.

(* the premises are satisfiable *)
Example ex_class_premises :
  class_equivariant (BMode 3 2) /\ class_equivariant BSExtractor /\ (1 < 6) /\
  root_homogeneous (fun _ => 0) /\ root_compatible (fun x => x) /\
  (forall x : Q, x == 0 -> (fun y : Q => y) x == 0) /\ allq 5 [5; 5; 5] /\
  Forall2 (arel 4 3) [1; 2; 3; 4; 100] [7; 11; 15; 19; 403].
Proof.
  split; [reflexivity|]. split; [exact I|]. split; [reflexivity|].
  split; [exact root_homogeneous_satisfiable|]. split; [intros x y H; exact H|].
  split; [exact root_zero_satisfiable|].
  split; [intros v [<-|[<-|[<-|[]]]]; reflexivity|]. repeat constructor.
Qed.
Example ex_ratio_premise : 0 < 2 /\ 2 * 2 == 4.
Proof. split; reflexivity. Qed.

(* the C11 instances on scaled integers *)
Example ex_estZ :
  Qred (estZ BSExtractor [0; 0; 0; 0; 0; 0; 0; 0; 0; 0; 0; 0; 26]%Z) = (-3 # 1) /\
  Qred (estZ BMMM (map (fun v => (4 * v + 3)%Z) [0; 0; 3]%Z)) = (-5 # 1) /\                 (* 4 * (-2) + 3 *)
  Qred (rms2Z RStd (map (fun v => (4 * v + 3)%Z) [0; 0; 3]%Z)) = 32 /\                     (* 4 * 4 * 2 *)
  clip_of (Some (mkParams CMean 1 1 None)) [1; 2; 3; 100]%Z = [2]%Z.
Proof. vm_compute. repeat split; reflexivity. Qed.
